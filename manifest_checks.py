IOVEC_NOTE = ("Trusted: the shadow byte pipe (a vector of byte/hole cells), the H1 live-chunk registry, the harness' scripted reader. "
              "Bounded: up to 3 iovecs, 2 spare arenas, 4 held slices, <= 160 operations per run, pieces <= 70 KB. Sampling, not proof.")
DST = "deterministic simulation with fault injection (seeded plan search, reference model oracle, minimised replay)"

add("C03", "exploration",
    "Seeded search over producer/consumer/arena/lifecycle interleavings on real OwningIovec objects; after every operation every live object is compared byte for byte with a shadow pipe (content, total_size, return values, no empty slice). Exploration is the right level: the history space is unbounded and the failure modes are interleaving-specific.",
    IOVEC_NOTE, DST, "DESIGN.md 3.2, 5/C03", "simw")
add("C04", "exploration",
    "Same runs as C03 with 0-6 placeholders in flight, filled in any order, merged into, consumed up to: no visible byte may be a pending placeholder or follow one, iovs/flatten/stable_consumer are Ok exactly when nothing is pending, everything becomes visible once all are filled, no panic.",
    IOVEC_NOTE, DST, "DESIGN.md 3.2, 5/C04", "simw")
add("C20", "exploration",
    "clone/take are plan operations; every later operation on any object is followed by the full comparison of all objects with their own shadows, so a merge, backfill or drop leaking into a sibling is a content mismatch on the sibling.",
    IOVEC_NOTE, DST, "DESIGN.md 3.2, 5/C20", "simw")
