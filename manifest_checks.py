IOVEC_NOTE = ("Trusted: the shadow byte pipe (a vector of byte/hole cells), the H1 live-chunk registry, the harness' scripted reader. "
              "Bounded: up to 3 iovecs, 2 spare arenas, 4 held slices, <= 160 operations per run, pieces <= 70 KB. Sampling, not proof.")
DST = "deterministic simulation with fault injection (seeded plan search, reference model oracle, minimised replay)"

add("C03", "exploration",
    "Seeded search over producer/consumer/arena/lifecycle interleavings on real OwningIovec objects; after every operation every live object is compared byte for byte with a shadow pipe (content, total_size, return values, no empty slice). Exploration is the right level: the history space is unbounded and the failure modes are interleaving-specific.",
    IOVEC_NOTE, DST, "DESIGN.md 3.2, 5/C03", "simw")
add("C04", "exploration",
    "Same runs as C03 with 0-6 placeholders in flight, filled in any order, merged into, consumed up to: no visible byte may be a pending placeholder or follow one, iovs/flatten/stable_consumer are Ok exactly when nothing is pending, everything becomes visible once all are filled, no panic.",
    IOVEC_NOTE, DST, "DESIGN.md 3.2, 5/C04", "simw")
add("C20", "exploration",
    "clone/take are plan operations; every later operation on any object is followed by the full comparison of all objects with their own shadows, so a merge, backfill or drop leaking into a sibling is a content mismatch on the sibling.",
    IOVEC_NOTE, DST, "DESIGN.md 3.2, 5/C20", "simw")
CODEC_NOTE = ("Trusted: the reference codec (written from the format description, shares no constant with /repo), the scripted reader, hook H2 wrappers (same state machines, caller-chosen limits). "
              "Bounded: tiny-limit messages <= ~60 bytes, production-limit messages <= 200 KB, <= 8 feeds per side per run. Sampling, not proof.")
add("C01", "exploration",
    "Producer, drainer and arena-meddler tasks interleaved by a seeded plan on a real Encoder, then the produced wire re-fed piecewise (borrow/copy/anchored/decode_read with EINTR, short reads, hard errors) to a real Decoder with its own drainer: decoded output must equal the plaintext, for tiny limits (every chunk-boundary interaction in every run) and production limits (lengths around 252, 252+64008, multi-chunk).",
    CODEC_NOTE, DST, "DESIGN.md 3.2, 5/C01", "simw")
add("C02", "exploration",
    "Same runs: the wire as actually delivered (early drains + finish) is scanned for FE FD across drain and slice boundaries, compared with a one-shot encoding and a drain-free replica of the same feeds (split/method/drain independence), and checked against the length bound; long streaming runs scan the streamed output too.",
    CODEC_NOTE, DST, "DESIGN.md 5/C02", "simw")
add("C07", "exploration",
    "Encoder output compared byte for byte with an independent reference encoder (production limits through the public API, so a constant shifted on both sides is visible); Decoder compared with the reference decoder on valid wires, wires corrupted by the plan (truncate, overwrite, bump, append, delete, insert), random strings, structured header-like garbage, and the same wire truncated at every length, under drawn segmentations and input methods.",
    CODEC_NOTE, DST, "DESIGN.md 5/C07", "simw")
add("C09", "exploration",
    "After every feed and drain call: drained-so-far plus finish equals the reference encoding (a drain-free replica separates drain effects from encoding bugs), decoder lag is zero, encoder lag is below one arena chunk + one HCOBS chunk; 64 MiB (quick) to 512 MiB (thorough) streaming runs with drawn piece schedules, payload shapes and drain policies make 'independent of stream length' observable.",
    CODEC_NOTE + " The lag bound's first term is max(1 MiB, largest single arena allocation rounded to 4 KiB).", DST, "DESIGN.md 5/C09", "simw")
STREAM_NOTE = ("Trusted: reference tokeniser/decoder, the log builder, FaultyStream. Reader faults are those the property quantifies over (short reads, EINTR); hard reader errors are not injected in deciding runs. "
               "Bounded: logs up to ~7 records (<= 66 KB each), <= 4 disk faults, block sizes {0,1,2,3,4,5,7,8,16,64,4096,512 KiB}. Sampling, plus exhaustive truncation points inside designated runs.")
add("C06", "exploration",
    "A log written by a crashing writer (records, torn records, garbage, missing or repeated delimiters) onto a faulty disk (overwrites, duplicated spans, inserted/deleted bytes, truncation) is read through StreamReader with every block size, short reads and EINTR; the returned (bytes, range) sequence, end of stream and last_sentinel_offset must equal the reference reader's; designated runs re-read the log truncated at every byte (crash-point enumeration).",
    STREAM_NOTE, DST + "; crash points enumerated exhaustively inside sweep runs", "DESIGN.md 3.2, 5/C06", "simw")
add("C08", "exploration",
    "StreamChunker::pump over the same faulty logs and readers: chunks must tile the input, offsets are running totals, no Data is empty or holds FE FD, no FE|FD straddle, Eof only at the true end (and sticky); arenas in drawn states and swapped between pumps.",
    STREAM_NOTE, DST, "DESIGN.md 5/C08", "simw")
add("C05", "exploration",
    "After every operation of the iovec, codec and stream worlds, every slice reachable through a read-side accessor (including clones, taken iovecs, held AnchoredSlices, held chunker chunks, held reader records) must lie inside the caller pool or a chunk the H1 registry reports alive, with the expected content (0xFC poison shows as a mismatch); the registry itself asserts that chunks never overlap. Thorough tier replays the same seeds under AddressSanitizer.",
    IOVEC_NOTE + " The registry (hook H1) is trusted to see every chunk creation and release.", DST + "; sanitizer replay of the same plans in the thorough tier", "DESIGN.md 3.2, 3.5, 5/C05", "simw")
add("C10", "exploration",
    "Every run of the iovec, codec and stream worlds ends by dropping all objects in a drawn order and compares ByteArena::num_live_chunks/bytes and the registry with the run's baseline; long streaming runs with full drains bound live arena bytes by 4 x max(1 MiB, largest allocation) per object while >= 64 MiB flow through.",
    IOVEC_NOTE + " The live-chunk counters are plain atomics updated from any thread; their behaviour under concurrent chunk creation/release is only examined in the thorough tier (plain threads under Miri's scheduler).", DST + "; Miri plain-threads observer for the counters in the thorough tier", "DESIGN.md 5/C10, 10.8", "simw")
add("C17", "exploration",
    "Scripted readers over {deliver k, Interrupted, EOF, hard error kinds} up to 12 steps x counts x attempt limits x arena states, directly on ByteArena::read_n and through Encoder/Decoder read_n, encode_read, decode_read: result, number of reader calls and buffer length offered per call must equal a ten-line reference of the documented loop; failed reads leave the codec output unchanged (checked by the codec oracles).",
    IOVEC_NOTE, DST, "DESIGN.md 5/C17", "simw")
T_NOTE = ("Trusted: the baton scheduler (exactly one simulated thread runs at a time; real threads parked at intercepted points), the promise-free release/acquire view model (a subset of the behaviours the C++/Rust model allows: no load buffering, stores appended at the end of modification order), hook H3a stand-ins. "
          "Bounded: <= 4 threads, <= 8 calls per thread, <= 600 steps per thread. Sampling, not proof.")
add("C13", "exploration",
    "Real AtomicBaseTime code on real threads under a simulator-owned scheduler (uniform, PCT, reader starvation, round robin, run-to-completion) with atomics' values served from a release/acquire view memory model that returns stale messages where the orderings allow it, and in sequentially consistent mode; the recorded history is judged: every snapshot is an accepted pair (unique bases), at least as recent as every update that happens-before its invocation, per-thread monotone; older updates ignored, newer accepted; no panic, no deadlock.",
    T_NOTE, DST + " (own thread scheduler + view-based weak memory model)", "DESIGN.md 3.3, 5/C13", "simw")
add("C18", "fault_enumeration",
    "Stall fault enumerated over every suspension point of one writer (each hook event of update/try_update, with and without the lock, also after a contained caller-error panic that poisoned the lock; run index modulo the step count) and sampled for two writers; after the stall a snapshot thread and a try_update thread run alone, one after the other: the snapshot must finish with exactly 4 atomic loads and no lock operation (sequentially consistent runs), try_update must finish without a blocking lock operation and return false when a stalled writer holds the lock; a blocked or over-long solo thread is reported by the deadlock/step-cap detector. A quarter of the runs are ordinary concurrent runs in which readers are lapped several times (no lock operation, no spurious retry on any snapshot). The same enumeration runs on nfs_voucher's static cell (scanner stalled inside scan_base_time; get_base_time_unlocked and observe_file_time then run alone).",
    T_NOTE + " World nfsthreads drives get_base_time_unlocked and observe_file_time on the static cell with a scanner stalled inside the blocking update (one OS process per history).", DST + " (stall-point enumeration)", "DESIGN.md 3.3, 5/C18", "simw")
V_NOTE = ("Trusted: SimClock and SimFileServer (hooks H3b/H3c replace the wall clock, st_dev and ctime; real files are still opened, touched and stat'ed), the provider closure, the reference window predicate (i128). "
          "One OS process per history. The 100 ms Instant-based refresh throttle runs on the real clock; now=None entry points run on fresh threads so it is unset, and the oracle never depends on whether the policy chose to refresh. Bounded: <= 60 calls per history.")
add("C14", "exploration",
    "VouchedTime::now is driven through the clock seam (clock advanced, skewed, jumped to the epoch region and the calendar limits) and the provider seam (accurate base, bases around both window edges, wild bases near 0, 2^63 and 2^64, vouchers for another value or from other parameters, provider errors); VouchedTime::new/check/get_local_time are exercised on the triples those produce. Oracle: Ok exactly when the voucher is right, local >= epoch and -59900 <= local-base <= 2990 in i128; never a panic. For the pure new/check part this is boundary-biased sampling of triples, stated as such.",
    V_NOTE, DST + " (simulated clock and time source; boundary-biased triples for the pure part)", "DESIGN.md 3.4, 5/C14", "simw")
add("C19", "exploration",
    "Histories of add_trusted_path / observe_file_time / maybe_observe_file_time / scan_base_time / get_base_time / get_base_time_unlocked / should_refresh_base_time over files on trusted, untrusted and later-trusted devices with older, equal and newer change-times, files that move to another device, per-device clock skew, clock jumps, 'now' on both sides of the refresh threshold; after every call: base never decreases, changes only to the simulated change-time of a file on a trusted (or being-registered) device, untrusted observations return nothing, every returned pair passes the voucher check, nothing moves before the first trust.",
    V_NOTE + " Concurrent histories (overlapping observers and scanners) run in worlds T and nfsthreads under the thread scheduler; there the oracle is that committed base times are non-decreasing in commit order.", DST + " (simulated clock and file server, one process per history; thread scheduler for overlapping callers)", "DESIGN.md 3.4, 5/C19, 10.5", "simw")
