#!/usr/bin/env python3
"""Prints the markdown tables of DESIGN.md 10.5/10.6 from seeded/*/meta.json and a mutant-run log."""
import glob, json, os, re, sys
root = os.path.dirname(os.path.dirname(os.path.abspath(__file__)))
print("| change | property | what it needs to manifest (author's note, abridged) | caught by | first invariant |")
print("|---|---|---|---|---|")
for d in sorted(glob.glob(root + "/seeded/C??-*")):
    m = json.load(open(d + "/meta.json"))
    notes = open(d + "/notes.md").read() if os.path.exists(d + "/notes.md") else ""
    title = notes.splitlines()[0].lstrip("# ").strip() if notes else ""
    title = re.sub(r"^(C\d\d )?(seed(ed)?( change)? ?\d? ?[:\-–—]*\s*)", "", title, flags=re.I)[:110]
    res = m.get("check_results", {})
    caught = [k for k, v in res.items() if v.get("caught")]
    missed = [k for k, v in res.items() if not v.get("caught")]
    inv = ""
    for k in caught:
        inv = res[k]["first_invariant"].split()[1] if res[k]["first_invariant"] else ""
        break
    print(f"| {os.path.basename(d)} | {m['property']} | {title} | {', '.join(caught) or '-'}{(' (missed: ' + ', '.join(missed) + ')') if missed else ''} | {inv} |")
