#!/bin/sh
# Background depth run (for `vp run`): builds the simulator once, then runs the
# given checks at the thorough tier with that fixed binary (no Miri/ASan), so
# that later edits of /repo do not disturb it.  Results are not evidence.
cd "$(dirname "$0")" || exit 2
(cd sim && cargo build --release --offline 2>&1 | tail -1) || exit 2
cp sim/target/release/simw /tmp/simw-bg-$$ || exit 2
export VERIF_ROOT="$(pwd)" VERIF_NO_MIRI=1
for id in "$@"; do
    start=$(date +%s)
    /tmp/simw-bg-$$ check "$id" thorough > "bg-$id.log" 2>&1
    echo "$id exit=$? $(( $(date +%s) - start ))s $(tail -1 bg-$id.log)"
    grep -E "^(VIOLATION|  invariant)" "bg-$id.log" | head -5
done
rm -f /tmp/simw-bg-$$
