#!/bin/sh
# MANIFEST.setup_cmd: builds the simulator from files on disk only (offline),
# then runs a reduced form of the determinism protocol (DESIGN.md 3.1.5 / 10.3).
set -e
cd "$(dirname "$0")"
export CARGO_NET_OFFLINE=true
(cd sim && cargo build --release --offline 2>&1 | tail -3)
export VERIF_ROOT="$(pwd)"
sim/target/release/simw selftest 40 | tail -3 || echo "setup: determinism selftest reported a problem (see ./check selftest)"
