#!/bin/sh
# Builds the simulator from files on disk only (offline).
set -e
cd "$(dirname "$0")/sim"
export CARGO_NET_OFFLINE=true
cargo build --release --offline 2>&1 | tail -3
