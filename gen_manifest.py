#!/usr/bin/env python3
"""Regenerates MANIFEST.json from the table below (keeps it schema-valid)."""
import json, subprocess, sys

HOOK_COMMITS = ["70f3eef", "97dc9b7", "fc3c5a7", "9b94f93", "4cbb02e"]

NA = [
    ("C11", "MessageWrapper::encode / MessageView round trip is a pure function of one argument: no schedule, clock, I/O, fault or second party for a simulator to control (DESIGN.md section 1)"),
    ("C12", "MessageView::new and its accessors are pure functions of one byte string; truncation at every length is a statement about the argument, not a fault instant (DESIGN.md section 1)"),
    ("C15", "SlidingDeque is a single-owner sequential container without I/O, time, allocation-dependent behaviour or concurrency; a model-based operation-sequence test would be input generation, not deterministic simulation (DESIGN.md section 1); its code runs for real under C03/C04"),
    ("C16", "SortedDeque: same as C15 (DESIGN.md section 1); its code runs for real under C03/C04"),
]

# id -> (category, text, level_note, technique, design_ref, engine)
CHECKS = {}

def add(pid, category, text, note, technique, ref, engine):
    CHECKS[pid] = dict(category=category, text=text, note=note, technique=technique, ref=ref, engine=engine)

exec(open("manifest_checks.py").read())

def main():
    checks = []
    for pid in sorted(CHECKS):
        c = CHECKS[pid]
        checks.append({
            "property_id": pid,
            "quick_cmd": f"./check {pid} quick",
            "thorough_cmd": f"./check {pid} thorough",
            "evidence_file": f"/verif/evidence/{pid}.json",
            "replay_cmd_template": "./check --replay {path}",
            "engine": c["engine"],
            "level_claimed": {"category": c["category"], "text": c["text"], "design_ref": c["ref"]},
            "level_note": c["note"],
            "technique": c["technique"],
        })
    claimed = set(CHECKS)
    na = [{"property_id": p, "reason": r} for p, r in NA if p not in claimed]
    for line in open("properties.jsonl"):
        pid = json.loads(line)["id"]
        if pid not in claimed and pid not in [p for p, _ in NA]:
            na.append({"property_id": pid, "reason": "check not built yet (work in progress; see DESIGN.md section 5 for the planned simulation)"})
    m = {
        "version": 1,
        "setup_cmd": "./setup.sh",
        "hooks": {
            "guard": "--cfg woodpile_verif",
            "enable": "rustflags = [\"--cfg\", \"woodpile_verif\"] in /verif/sim/.cargo/config.toml; the simulator depends on /repo/{owning_iovec,hcobs,sliding_deque,vouched_time} by path, so every check rebuilds /repo's working tree with hooks on",
            "baseline_off_cmd": "cd /repo && cargo test --workspace --no-fail-fast --offline",
            "source_commits": HOOK_COMMITS,
            "add_only": True,
        },
        "engines": [
            {"name": "simw", "path": "/verif/sim", "serves_properties": sorted(CHECKS),
             "kind_free_text": "own deterministic simulator (Rust): seeded plans, scripted Read/clock/file-server/thread-scheduler seams, reference models, delta-debugging minimiser, replay files; one OS process per worker"},
        ],
        "checks": checks,
        "not_applicable": na,
        "notes": "Deterministic simulation with fault injection; see DESIGN.md. ./check <ID> <quick|thorough>; ./check --replay <file>; known_findings.txt lists repaired and unrepaired genuine defects.",
    }
    json.dump(m, open("MANIFEST.json", "w"), indent=1)
    open("MANIFEST.json", "a").write("\n")
    try:
        import jsonschema
        jsonschema.validate(m, json.load(open("/root/.vp/MANIFEST.schema.json")))
        print("MANIFEST.json valid,", len(checks), "checks,", len(na), "not applicable")
    except ImportError:
        print("jsonschema not available; not validated")

main()
