//! Thorough-tier secondary engines that run under Miri (`cargo +nightly miri
//! run`): tiny plans of the P worlds with Miri watching every access (C05),
//! and a hook-free plain-threads workload under Miri's own scheduler and
//! weak-memory emulation (C13).  The simulator still generates the plans;
//! Miri is an observer that sees what the registry check can only infer.
use std::path::Path;
use std::process::Command;
use std::process::Stdio;

use crate::driver::replay_json;
use crate::json::J;
use crate::plan::*;

pub const MIRI_FLAGS_P: &str = "-Zmiri-disable-stacked-borrows";
pub const MIRI_FLAGS_T: &str = "-Zmiri-many-seeds=0..64 -Zmiri-preemption-rate=0.1";

pub struct MiriReport {
    pub lines: Vec<String>,
    pub violations: u64,
    pub extra: J,
}

/// The simulator's source directory: where this binary was built from
/// (<sim>/target/<profile>/simw), else <root>/sim.
fn sim_dir(root: &Path) -> std::path::PathBuf {
    if let Ok(exe) = std::env::current_exe() {
        let mut p = exe.as_path();
        for _ in 0..3 {
            p = p.parent().unwrap_or(Path::new("/"));
        }
        if p.join("Cargo.toml").exists() && p.join("src/miri.rs").exists() {
            return p.to_path_buf();
        }
    }
    root.join("sim")
}

fn miri_cmd(root: &Path, flags: &str, args: &[String]) -> Command {
    let mut c = Command::new("cargo");
    c.current_dir(sim_dir(root))
        .env("MIRIFLAGS", flags)
        .env("CARGO_NET_OFFLINE", "true")
        .args(["+nightly", "miri", "run", "--offline", "--quiet", "--"])
        .args(args)
        .stdin(Stdio::null())
        .stdout(Stdio::piped())
        .stderr(Stdio::piped());
    c
}

/// Builds the Miri binary once (so that the parallel runs below only run).
fn warm_up(root: &Path) -> Result<(), String> {
    let out = miri_cmd(root, MIRI_FLAGS_P, &["miri-batch".into(), "codec".into(), "C05".into(), "0".into(), "0".into(), "0".into()])
        .output()
        .map_err(|e| format!("cannot run cargo miri: {}", e))?;
    let text = String::from_utf8_lossy(&out.stdout);
    if !text.contains("DONE") {
        return Err(format!("cargo miri warm-up failed: {}", String::from_utf8_lossy(&out.stderr).lines().rev().take(15).collect::<Vec<_>>().join(" | ")));
    }
    Ok(())
}

/// C05: tiny plans of one world under Miri, `procs` processes in parallel.
pub fn miri_p_world(root: &Path, world: &'static dyn World, seed: u64, per_proc: u64, procs: u64, report: &mut MiriReport) {
    let start = std::time::Instant::now();
    let mut children = Vec::new();
    for k in 0..procs {
        let args: Vec<String> = vec!["miri-batch".into(), world.name().into(), "C05".into(), seed.to_string(), (k * per_proc).to_string(), ((k + 1) * per_proc).to_string()];
        children.push((k, miri_cmd(root, MIRI_FLAGS_P, &args).spawn().expect("harness: cannot spawn cargo miri")));
    }
    let mut runs = 0u64;
    let mut ops = 0u64;
    for (k, child) in children {
        let out = child.wait_with_output().expect("harness: wait miri");
        let stdout = String::from_utf8_lossy(&out.stdout).to_string();
        let stderr = String::from_utf8_lossy(&out.stderr).to_string();
        let mut last_run = None;
        let mut done = false;
        for line in stdout.lines() {
            if let Some(i) = line.strip_prefix("RUN ") {
                last_run = i.trim().parse::<u64>().ok();
                runs += 1;
            } else if let Some(rest) = line.strip_prefix("DONE ops=") {
                done = true;
                ops += rest.trim().parse::<u64>().unwrap_or(0);
            } else if let Some(rest) = line.strip_prefix("FOUND ") {
                // An ordinary invariant fired under Miri.
                let mut it = rest.split_whitespace();
                let idx: u64 = it.next().and_then(|s| s.parse().ok()).unwrap_or(0);
                let prop = it.next().unwrap_or("");
                let inv = it.next().unwrap_or("");
                if prop == "C05" {
                    write_miri_violation(root, world, seed, idx, inv, "invariant fired in a run under Miri", report);
                }
            }
        }
        if !done {
            // Miri stopped the process: an undefined-behaviour report (or a crash).
            let idx = last_run.unwrap_or(k * per_proc);
            let why: Vec<&str> = stderr.lines().filter(|l| l.contains("error") || l.contains("Undefined Behavior") || l.contains("panicked")).take(4).collect();
            write_miri_violation(root, world, seed, idx, "C05.miri_report", &format!("Miri stopped run {}: {}", idx, why.join(" | ")), report);
        }
    }
    let extra = J::obj()
        .with("world", J::str(world.name()))
        .with("engine", J::str("miri (aliasing model off, see DESIGN.md 3.5)"))
        .with("runs", J::u(runs))
        .with("ops_executed", J::u(ops))
        .with("miriflags", J::str(MIRI_FLAGS_P))
        .with("wall_s", J::Float(start.elapsed().as_secs_f64()));
    if let J::Arr(a) = report.extra.get("miri").cloned().unwrap_or(J::Arr(vec![])) {
        let mut a = a;
        a.push(extra);
        report.extra.set("miri", J::Arr(a));
    }
}

fn write_miri_violation(root: &Path, world: &'static dyn World, seed: u64, idx: u64, inv: &str, detail: &str, report: &mut MiriReport) {
    let plan = world.generate(seed, idx, Ask { prop: "C05", thorough: false, tiny: true });
    let v = Violation { prop: "C05", inv: inv.to_string(), detail: detail.to_string(), at_op: usize::MAX, key: String::new() };
    let path = root.join("replays").join(format!("C05-{}-miri-{}-{}.json", seed, world.name(), idx));
    let mut rj = replay_json(&plan, &v, 0, plan.ops.len());
    rj.set("replay_with", J::str("miri"));
    let _ = std::fs::create_dir_all(root.join("replays"));
    std::fs::write(&path, rj.pretty()).expect("harness: cannot write replay");
    report.lines.push(format!("  [miri] {} in {} run {}: {}", inv, world.name(), idx, detail));
    report.lines.push(format!("VIOLATION property=C05 replay={}", path.display()));
    report.violations += 1;
}

/// C13: the plain-threads workload, 64 Miri seeds per workload seed.
pub fn miri_threads(root: &Path, seed: u64, workloads: u64, procs: u64, report: &mut MiriReport) {
    miri_plain(root, seed, workloads, procs, report, "miri-threads", "C13")
}

/// C10: plain threads creating and releasing arena chunks concurrently.
pub fn miri_chunks(root: &Path, seed: u64, workloads: u64, procs: u64, report: &mut MiriReport) {
    miri_plain(root, seed, workloads, procs, report, "miri-chunks", "C10")
}

fn miri_plain(root: &Path, seed: u64, workloads: u64, procs: u64, report: &mut MiriReport, cmd: &str, prop: &str) {
    let start = std::time::Instant::now();
    let mut executions = 0u64;
    let mut next = 0u64;
    while next < workloads {
        let mut children = Vec::new();
        for _ in 0..procs {
            if next >= workloads {
                break;
            }
            let w = crate::prng::mix(&[seed, 0x3171, next]) >> 1;
            children.push((w, miri_cmd(root, MIRI_FLAGS_T, &[cmd.into(), w.to_string()]).spawn().expect("harness: cannot spawn cargo miri")));
            next += 1;
        }
        for (w, child) in children {
            let out = child.wait_with_output().expect("harness: wait miri");
            let stdout = String::from_utf8_lossy(&out.stdout).to_string();
            let stderr = String::from_utf8_lossy(&out.stderr).to_string();
            let done = stdout.lines().filter(|l| l.starts_with("DONE")).count() as u64;
            executions += done;
            let found: Vec<&str> = stdout.lines().filter(|l| l.starts_with("FOUND ")).collect();
            let ub: Vec<&str> = stderr.lines().filter(|l| l.contains("Undefined Behavior") || l.contains("data race")).take(3).collect();
            if !found.is_empty() || !ub.is_empty() || !out.status.success() {
                let why = if !found.is_empty() { found[0].to_string() } else if !ub.is_empty() { ub.join(" | ") } else { format!("miri exited with {:?}", out.status) };
                let path = root.join("replays").join(format!("{}-{}-{}-{}.json", prop, seed, cmd, w));
                let j = J::obj()
                    .with("replay_with", J::str(cmd))
                    .with("workload_seed", J::u(w))
                    .with("miriflags", J::str(MIRI_FLAGS_T))
                    .with("expected", J::obj().with("property", J::str(prop)).with("invariant", J::str(&format!("{}.miri_plain_threads", prop))).with("detail", J::str(&why)));
                let _ = std::fs::create_dir_all(root.join("replays"));
                std::fs::write(&path, j.pretty()).expect("harness: cannot write replay");
                report.lines.push(format!("  [miri] plain threads, workload seed {}: {}", w, why));
                report.lines.push(format!("VIOLATION property={} replay={}", prop, path.display()));
                report.violations += 1;
            }
        }
    }
    report.extra.set(
        if prop == "C13" { "miri_plain_threads" } else { "miri_plain_chunk_threads" },
        J::obj()
            .with("workloads", J::u(workloads))
            .with("executions", J::u(executions))
            .with("miriflags", J::str(MIRI_FLAGS_T))
            .with("wall_s", J::Float(start.elapsed().as_secs_f64()))
            .with("note", J::str("hook-free std::thread workload; Miri's scheduler and weak-memory emulation choose interleavings and reads-from")),
    );
}

pub fn run_for(prop: &str, root: &Path, seed: u64, scale: f64) -> Result<MiriReport, String> {
    let mut report = MiriReport { lines: Vec::new(), violations: 0, extra: J::obj() };
    warm_up(root)?;
    let n = |x: u64| ((x as f64 * scale).ceil() as u64).max(1);
    match prop {
        "C05" => {
            report.extra.set("miri", J::Arr(vec![]));
            miri_p_world(root, crate::world_by_name("iovec"), seed, n(16), 16, &mut report);
            miri_p_world(root, crate::world_by_name("codec"), seed, n(100), 16, &mut report);
            miri_p_world(root, crate::world_by_name("stream"), seed, n(100), 16, &mut report);
        }
        "C13" => miri_threads(root, seed, n(64), 8, &mut report),
        "C10" => miri_chunks(root, seed, n(24), 8, &mut report),
        _ => {}
    }
    Ok(report)
}

/// Replays a Miri-engine replay file.  Returns the process exit code.
pub fn replay(root: &Path, path: &str, j: &J) -> i32 {
    match j.get("replay_with").and_then(|x| x.as_str()) {
        Some("miri") => {
            let out = miri_cmd(root, MIRI_FLAGS_P, &["replay-inproc".into(), path.to_string()]).output().expect("harness: cargo miri");
            let stdout = String::from_utf8_lossy(&out.stdout);
            print!("{}", stdout);
            if !out.status.success() && !stdout.contains("VIOLATION") {
                let stderr = String::from_utf8_lossy(&out.stderr);
                for l in stderr.lines().filter(|l| l.contains("error") || l.contains("Undefined Behavior")).take(5) {
                    println!("  [miri] {}", l);
                }
                println!("VIOLATION property=C05 replay={}", path);
            }
            if out.status.success() { 0 } else { 1 }
        }
        Some(cmd @ ("miri-threads" | "miri-chunks")) => {
            let w = j.get("workload_seed").and_then(|x| x.as_u64()).unwrap_or(0);
            let out = miri_cmd(root, MIRI_FLAGS_T, &[cmd.to_string(), w.to_string()]).output().expect("harness: cargo miri");
            let stdout = String::from_utf8_lossy(&out.stdout);
            let found = stdout.lines().any(|l| l.starts_with("FOUND"));
            for l in stdout.lines().filter(|l| l.starts_with("FOUND")).take(5) {
                println!("  {}", l);
            }
            if found || !out.status.success() {
                println!("VIOLATION property={} replay={}", if cmd == "miri-chunks" { "C10" } else { "C13" }, path);
                1
            } else {
                println!("no violation");
                0
            }
        }
        _ => 2,
    }
}
