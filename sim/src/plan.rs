//! Plans, violations, statistics and the `World` interface shared by all
//! simulated worlds.
use std::collections::BTreeMap;
use std::collections::HashSet;

use crate::json::J;

/// One operation of a plan: a kind and up to four numeric arguments.  Every
/// operation is interpretable in every state (arguments are clamped or taken
/// modulo what exists), so any subsequence of a plan is a plan.
#[derive(Clone, Debug, PartialEq, Eq)]
pub struct Op {
    pub k: &'static str,
    pub a: [u64; 4],
}

impl Op {
    pub fn new(k: &'static str, a: [u64; 4]) -> Op {
        Op { k, a }
    }
}

#[derive(Clone, Debug, PartialEq, Eq)]
pub struct Plan {
    pub world: &'static str,
    /// Sub-mode of the world (e.g. "tiny", "prod", "long").
    pub mode: String,
    pub seed: u64,
    pub index: u64,
    /// Named configuration knobs (sorted, deterministic).
    pub knobs: BTreeMap<String, u64>,
    pub ops: Vec<Op>,
}

impl Plan {
    pub fn knob(&self, name: &str) -> u64 {
        *self.knobs.get(name).unwrap_or(&0)
    }

    pub fn to_json(&self) -> J {
        let mut knobs = J::obj();
        for (k, v) in &self.knobs {
            knobs.set(k, J::u(*v));
        }
        let ops = self
            .ops
            .iter()
            .map(|op| {
                let mut v = vec![J::str(op.k)];
                // Trailing zero arguments are omitted for readability.
                let mut last = 0;
                for (i, a) in op.a.iter().enumerate() {
                    if *a != 0 {
                        last = i + 1;
                    }
                }
                for a in &op.a[..last] {
                    v.push(J::u(*a));
                }
                J::Arr(v)
            })
            .collect();
        J::obj()
            .with("world", J::str(self.world))
            .with("mode", J::str(&self.mode))
            .with("seed", J::u(self.seed))
            .with("index", J::u(self.index))
            .with("knobs", knobs)
            .with("ops", J::Arr(ops))
    }

    pub fn from_json(j: &J, worlds: &[&'static dyn World]) -> Result<Plan, String> {
        let world_name = j.get("world").and_then(|x| x.as_str()).ok_or("no world")?;
        let world = worlds
            .iter()
            .find(|w| w.name() == world_name)
            .ok_or_else(|| format!("unknown world {}", world_name))?;
        let mut knobs = BTreeMap::new();
        if let Some(J::Obj(m)) = j.get("knobs") {
            for (k, v) in m {
                knobs.insert(k.clone(), v.as_u64().ok_or("bad knob")?);
            }
        }
        let mut ops = Vec::new();
        for item in j.get("ops").and_then(|x| x.as_arr()).ok_or("no ops")? {
            let arr = item.as_arr().ok_or("bad op")?;
            let name = arr.first().and_then(|x| x.as_str()).ok_or("bad op kind")?;
            let k = world
                .kinds()
                .iter()
                .find(|k| **k == name)
                .ok_or_else(|| format!("unknown op kind {}", name))?;
            let mut a = [0u64; 4];
            for (i, v) in arr[1..].iter().enumerate() {
                a[i] = v.as_u64().ok_or("bad op arg")?;
            }
            ops.push(Op { k, a });
        }
        Ok(Plan {
            world: world.name(),
            mode: j
                .get("mode")
                .and_then(|x| x.as_str())
                .unwrap_or("")
                .to_string(),
            seed: j.get("seed").and_then(|x| x.as_u64()).unwrap_or(0),
            index: j.get("index").and_then(|x| x.as_u64()).unwrap_or(0),
            knobs,
            ops,
        })
    }

    /// Hash of the sequence of operation kinds (a measure of plan shape).
    pub fn shape_hash(&self) -> u64 {
        let mut h = crate::prng::LogHash::new();
        h.str(&self.mode);
        if self.ops.is_empty() {
            for (k, v) in &self.knobs {
                if !k.contains("seed") {
                    h.str(k);
                    h.u64(*v);
                }
            }
        }
        for op in &self.ops {
            h.str(op.k);
            if op.k == "freeze" {
                // Fault enumeration: the stall point is part of the shape.
                h.u64(op.a[0]);
                h.u64(op.a[1]);
            }
        }
        h.0
    }
}

#[derive(Clone, Debug)]
pub struct Violation {
    /// Property whose invariant fired.
    pub prop: &'static str,
    /// Stable invariant identifier, e.g. `C03.total_size`.
    pub inv: String,
    pub detail: String,
    /// Index of the operation after which it fired (`usize::MAX`: end of run).
    pub at_op: usize,
    /// Optional classification used to match `known_findings.txt`.
    pub key: String,
}

#[derive(Clone, Debug, Default)]
pub struct Stats {
    /// Fault kinds that actually fired, probes at interesting branches, and
    /// operation counts, all by name.
    pub counters: BTreeMap<String, u64>,
    /// Distinct abstract states (hashes of small per-world signatures).
    pub states: HashSet<u64>,
    /// Distinct plan shapes of non-trivial runs.
    pub shapes: HashSet<u64>,
    pub ops_executed: u64,
    pub runs: u64,
    pub nontrivial_runs: u64,
    pub sim_time_ms: u64,
}

pub const STATE_CAP: usize = 3_000_000;

impl Stats {
    #[inline]
    pub fn bump(&mut self, name: &str) {
        self.add(name, 1);
    }

    pub fn add(&mut self, name: &str, n: u64) {
        if let Some(v) = self.counters.get_mut(name) {
            *v += n;
        } else {
            self.counters.insert(name.to_string(), n);
        }
    }

    #[inline]
    pub fn state(&mut self, sig: u64) {
        if self.states.len() < STATE_CAP {
            self.states.insert(sig);
        }
    }

    pub fn merge(&mut self, other: &Stats) {
        for (k, v) in &other.counters {
            if k.contains(".max_") {
                let e = self.counters.entry(k.clone()).or_insert(0);
                *e = (*e).max(*v);
            } else {
                self.add(k, *v);
            }
        }
        for s in &other.states {
            self.state(*s);
        }
        for s in &other.shapes {
            if self.shapes.len() < STATE_CAP {
                self.shapes.insert(*s);
            }
        }
        self.ops_executed += other.ops_executed;
        self.runs += other.runs;
        self.nontrivial_runs += other.nontrivial_runs;
        self.sim_time_ms += other.sim_time_ms;
    }
}

pub struct Outcome {
    /// Every invariant that fired in this run (at most one per invariant id).
    pub violations: Vec<Violation>,
    /// Hash of the run's event log (address free).
    pub log_hash: u64,
    /// Whether the run did something worth counting (world-specific rule).
    pub nontrivial: bool,
}

/// What a check wants from a world: which property is being decided (it
/// selects the workload mix) and at which tier.
#[derive(Clone, Copy, Debug)]
pub struct Ask {
    pub prop: &'static str,
    pub thorough: bool,
    /// Generate deliberately tiny plans (for execution under Miri, which is
    /// three orders of magnitude slower).
    pub tiny: bool,
}

pub trait World: Sync {
    fn name(&self) -> &'static str;
    fn kinds(&self) -> &'static [&'static str];
    /// Properties whose invariants this world evaluates.
    fn serves(&self) -> &'static [&'static str];
    /// Derives the plan of run `index` from the run seed (pure function).
    fn generate(&self, seed: u64, index: u64, ask: Ask) -> Plan;
    /// Executes the plan against the real code and the reference model.
    /// Must not panic: panics of the code under test are caught inside.
    fn execute(&self, plan: &Plan, stats: &mut Stats) -> Outcome;
    /// Number of runs for a batch.
    fn runs(&self, ask: Ask) -> u64;
    /// Which components ran real code and which ran a stub.
    fn components(&self) -> (Vec<&'static str>, Vec<&'static str>);
    /// One-line rule describing what makes a run distinct / non-trivial.
    fn rule(&self) -> &'static str;
    /// If true, each run must execute in its own OS process.
    fn process_per_run(&self) -> bool {
        false
    }
}
