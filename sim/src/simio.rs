//! Simulated I/O: the payload pool every appended byte comes from, the one
//! scripted `Read` implementation the code under test ever sees, and an
//! independent reference for the documented `read_n` retry loop.
use std::io::ErrorKind;
use std::sync::OnceLock;

use crate::prng::Rng;

pub const POOL_UNIFORM: usize = 1 << 20; // [0, 1 MiB): uniform random bytes
pub const POOL_DENSE: usize = 1 << 19; // then 512 KiB of FE/FD-dense bytes
pub const POOL_SMALL: usize = 1 << 18; // then 256 KiB over {FC,FD,FE,FF,00}
pub const POOL_RUNS: usize = 1 << 18; // then 256 KiB of runs of one byte
pub const POOL_ZERO: usize = 1 << 18; // then 256 KiB of zeros
pub const POOL_SIZE: usize = POOL_UNIFORM + POOL_DENSE + POOL_SMALL + POOL_RUNS + POOL_ZERO;

/// A process-wide, immutable, leaked buffer whose contents are a pure
/// function of a constant; borrowed slices handed to the code under test are
/// `&'static` sub-slices of it, so their borrow is always in force.
pub fn pool() -> &'static [u8] {
    static POOL: OnceLock<&'static [u8]> = OnceLock::new();
    POOL.get_or_init(|| {
        let mut rng = Rng::new(0x5eed_0f_b00c);
        let mut v = Vec::with_capacity(POOL_SIZE);
        while v.len() < POOL_UNIFORM {
            v.extend_from_slice(&rng.next().to_le_bytes());
        }
        for _ in 0..POOL_DENSE {
            let r = rng.below(10);
            v.push(match r {
                0..=2 => 0xFE,
                3..=5 => 0xFD,
                _ => rng.below(256) as u8,
            });
        }
        for _ in 0..POOL_SMALL {
            v.push([0xFC, 0xFD, 0xFE, 0xFF, 0x00][rng.below(5) as usize]);
        }
        let mut remaining = POOL_RUNS;
        while remaining > 0 {
            let n = (rng.range(1, 300) as usize).min(remaining);
            let b = if rng.chance(1, 3) {
                [0xFE, 0xFD, 0x00, 0xFF][rng.below(4) as usize]
            } else {
                rng.below(256) as u8
            };
            v.extend(std::iter::repeat(b).take(n));
            remaining -= n;
        }
        v.extend(std::iter::repeat(0u8).take(POOL_ZERO));
        assert_eq!(v.len(), POOL_SIZE);
        Box::leak(v.into_boxed_slice())
    })
}

/// Start offsets of the pool regions, by alphabet class 0..5.
pub fn region(class: u64) -> (usize, usize) {
    let a = POOL_UNIFORM;
    let b = a + POOL_DENSE;
    let c = b + POOL_SMALL;
    let d = c + POOL_RUNS;
    match class % 5 {
        0 => (0, a),
        1 => (a, POOL_DENSE),
        2 => (b, POOL_SMALL),
        3 => (c, POOL_RUNS),
        _ => (d, POOL_ZERO),
    }
}

/// Clamped pool slice: any `(off, len)` is valid.
pub fn pool_slice(off: u64, len: u64) -> &'static [u8] {
    let p = pool();
    let off = (off as usize) % p.len();
    let len = (len as usize).min(p.len() - off);
    &p[off..off + len]
}

/// Where `slice` lies in the pool, if it does.
pub fn pool_locate(ptr: *const u8, len: usize) -> Option<usize> {
    let p = pool();
    let base = p.as_ptr() as usize;
    let addr = ptr as usize;
    if addr >= base && addr + len <= base + p.len() {
        Some(addr - base)
    } else {
        None
    }
}

#[derive(Clone, Copy, Debug, PartialEq, Eq)]
pub enum Step {
    /// Deliver up to this many bytes (at least one if any is left).
    Deliver(usize),
    Interrupted,
    Eof,
    Fail(ErrorKind),
}

/// The scripted reader.  Bytes come from `src`; once the script is exhausted
/// it behaves as dictated by `tail` (deliver everything asked / end of file).
pub struct SimReader<'a> {
    pub src: &'a [u8],
    pub pos: usize,
    pub script: Vec<Step>,
    pub next: usize,
    pub tail_eof: bool,
    /// Buffer length offered at each call.
    pub offered: Vec<usize>,
    pub fired: [u64; 5], // short, full, eintr, eof, fail
}

impl<'a> SimReader<'a> {
    pub fn new(src: &'a [u8], script: Vec<Step>, tail_eof: bool) -> Self {
        SimReader {
            src,
            pos: 0,
            script,
            next: 0,
            tail_eof,
            offered: Vec::new(),
            fired: [0; 5],
        }
    }
}

impl std::io::Read for SimReader<'_> {
    fn read(&mut self, dst: &mut [u8]) -> std::io::Result<usize> {
        self.offered.push(dst.len());
        let step = if self.next < self.script.len() {
            self.next += 1;
            self.script[self.next - 1]
        } else if self.tail_eof {
            Step::Eof
        } else {
            Step::Deliver(usize::MAX)
        };
        match step {
            Step::Deliver(k) => {
                let left = self.src.len() - self.pos;
                let n = k.min(dst.len()).min(left);
                dst[..n].copy_from_slice(&self.src[self.pos..self.pos + n]);
                self.pos += n;
                if n == 0 {
                    self.fired[3] += 1;
                } else if n < dst.len() {
                    self.fired[0] += 1;
                } else {
                    self.fired[1] += 1;
                }
                Ok(n)
            }
            Step::Interrupted => {
                self.fired[2] += 1;
                Err(std::io::Error::new(ErrorKind::Interrupted, "sim EINTR"))
            }
            Step::Eof => {
                self.fired[3] += 1;
                Ok(0)
            }
            Step::Fail(kind) => {
                self.fired[4] += 1;
                Err(std::io::Error::new(kind, "sim I/O error"))
            }
        }
    }
}

/// Derives a reader script from a seed.  Seed 0 is the fault-free script
/// (deliver everything asked); `hard` allows hard errors and EOF.
pub fn script_from(seed: u64, hard: bool) -> (Vec<Step>, bool) {
    if seed == 0 {
        return (Vec::new(), false);
    }
    let mut rng = Rng::new(seed ^ 0x51b7_c0de);
    let len = rng.range(1, 12) as usize;
    let style = rng.below(4);
    let mut script = Vec::with_capacity(len);
    for _ in 0..len {
        let r = rng.below(100);
        let step = if r < 45 {
            Step::Deliver(match rng.below(4) {
                0 => 1,
                1 => rng.range(1, 4) as usize,
                2 => rng.range(1, 64) as usize,
                _ => usize::MAX,
            })
        } else if r < 75 {
            Step::Interrupted
        } else if !hard || style == 0 {
            Step::Deliver(rng.range(1, 8) as usize)
        } else if r < 87 {
            Step::Eof
        } else {
            Step::Fail(
                [
                    ErrorKind::Other,
                    ErrorKind::WouldBlock,
                    ErrorKind::TimedOut,
                    ErrorKind::UnexpectedEof,
                ][rng.below(4) as usize],
            )
        };
        script.push(step);
    }
    let tail_eof = hard && rng.chance(1, 3);
    (script, tail_eof)
}

pub struct RefRead {
    pub result: Result<usize, ErrorKind>,
    pub calls: usize,
    pub offered: Vec<usize>,
}

/// Independent reference of the documented `read_n` loop: at most
/// `max_attempts` calls, never asking for more than what is still missing,
/// stop at EOF / first non-interrupt error / when full; `Ok(delivered)` if at
/// least one byte was delivered or EOF came first, else the last error.
pub fn ref_read_n(
    src_len: usize,
    script: &[Step],
    tail_eof: bool,
    count: usize,
    max_attempts: usize,
) -> RefRead {
    let mut offered = Vec::new();
    if count == 0 {
        return RefRead {
            result: Ok(0),
            calls: 0,
            offered,
        };
    }
    let mut got = 0usize;
    let mut avail = src_len;
    let mut last_err: Option<ErrorKind> = None;
    let mut calls = 0;
    while calls < max_attempts {
        let step = if calls < script.len() {
            script[calls]
        } else if tail_eof {
            Step::Eof
        } else {
            Step::Deliver(usize::MAX)
        };
        offered.push(count - got);
        calls += 1;
        match step {
            Step::Deliver(k) => {
                let n = k.min(count - got).min(avail);
                if n == 0 {
                    last_err = None;
                    break;
                }
                got += n;
                avail -= n;
            }
            Step::Eof => {
                last_err = None;
                break;
            }
            Step::Interrupted => last_err = Some(ErrorKind::Interrupted),
            Step::Fail(kind) => {
                last_err = Some(kind);
                break;
            }
        }
        if got == count {
            break;
        }
    }
    let result = match (got, last_err) {
        (0, Some(kind)) => Err(kind),
        _ => Ok(got),
    };
    RefRead {
        result,
        calls,
        offered,
    }
}

pub fn attempts_from(class: u64) -> usize {
    match class % 6 {
        0 => 1,
        1 => 2,
        2 => 3,
        3 => 5,
        4 => 16,
        _ => usize::MAX,
    }
}
