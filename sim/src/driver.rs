//! Batch driver: forks single-purpose worker processes, merges their
//! statistics, handles violations (minimise, write replay, confirm in a fresh
//! process), known findings, and writes the evidence file.
use std::cell::RefCell;
use std::collections::BTreeMap;
use std::io::Write;
use std::path::Path;
use std::path::PathBuf;
use std::process::Command;
use std::process::Stdio;
use std::time::Duration;
use std::time::Instant;

use crate::json::J;
use crate::minimise::minimise;
use crate::plan::*;

thread_local! {
    static LAST_PANIC: RefCell<String> = const { RefCell::new(String::new()) };
}

pub fn install_panic_hook() {
    std::panic::set_hook(Box::new(|info| {
        let loc = info
            .location()
            .map(|l| format!("{}:{}", l.file(), l.line()))
            .unwrap_or_default();
        let msg = if let Some(s) = info.payload().downcast_ref::<&str>() {
            s.to_string()
        } else if let Some(s) = info.payload().downcast_ref::<String>() {
            s.clone()
        } else {
            String::new()
        };
        if msg.starts_with("harness:") {
            eprintln!("HARNESS ERROR at {}: {}", loc, msg);
        }
        LAST_PANIC.with(|p| *p.borrow_mut() = format!("{} @ {}", msg, loc));
    }));
}

pub fn last_panic_location(fallback: &str) -> String {
    LAST_PANIC.with(|p| {
        let s = p.borrow();
        if s.is_empty() {
            fallback.to_string()
        } else {
            // Keep the path relative to the repository for readability.
            s.replace("/repo/", "")
        }
    })
}

pub fn verif_root() -> PathBuf {
    if let Ok(p) = std::env::var("VERIF_ROOT") {
        return PathBuf::from(p);
    }
    // The binary lives in <root>/sim/target/<profile>/simw.
    let exe = std::env::current_exe().expect("current_exe");
    let mut p = exe.as_path();
    for _ in 0..4 {
        p = p.parent().unwrap_or(Path::new("/verif"));
    }
    if p.join("properties.jsonl").exists() {
        p.to_path_buf()
    } else {
        PathBuf::from("/verif")
    }
}

pub fn scratch_dir() -> PathBuf {
    let base = std::env::temp_dir().join(format!("woodpile-verif-{}", std::process::id()));
    std::fs::create_dir_all(&base).expect("harness: cannot create scratch dir");
    base
}

/// Executes a plan in a fresh child process (`simw exec1`, plan on stdin) and
/// merges the child's statistics; used by worlds whose code under test keeps
/// process-wide state.
pub fn execute_in_child(plan: &Plan, stats: &mut Stats) -> Outcome {
    let exe = std::env::current_exe().expect("current_exe");
    execute_in_child_with(&exe, plan, stats)
}

pub fn execute_in_child_with(exe: &Path, plan: &Plan, stats: &mut Stats) -> Outcome {
    let mut child = Command::new(exe)
        .arg("exec1")
        .stdin(Stdio::piped())
        .stdout(Stdio::piped())
        .stderr(Stdio::piped())
        .spawn()
        .expect("harness: cannot spawn exec1");
    child
        .stdin
        .take()
        .unwrap()
        .write_all(plan.to_json().to_string().as_bytes())
        .expect("harness: cannot send plan");
    let out = child.wait_with_output().expect("harness: wait exec1");
    if out.status.code() == Some(2) {
        eprintln!("harness error in exec1: {}", String::from_utf8_lossy(&out.stderr));
        std::process::exit(2);
    }
    let text = String::from_utf8_lossy(&out.stdout).to_string();
    let Some(line) = text.lines().find(|l| l.starts_with('{')) else {
        // The child died: that is a finding about the code under test.
        let crash_prop = crate::crash_property(plan.world);
        return Outcome {
            violations: vec![Violation {
                prop: crash_prop,
                inv: format!("{}.process_died", crash_prop),
                detail: format!("child process died ({:?}): {}", out.status, String::from_utf8_lossy(&out.stderr).lines().take(6).collect::<Vec<_>>().join(" | ")),
                at_op: usize::MAX,
                key: String::new(),
            }],
            log_hash: 0,
            nontrivial: false,
        };
    };
    let j = J::parse(line).expect("harness: bad exec1 json");
    if let Some(J::Obj(m)) = j.get("counters") {
        for (k, v) in m {
            stats.add(k, v.as_u64().unwrap_or(0));
        }
    }
    if let Some(arr) = j.get("states").and_then(|x| x.as_arr()) {
        for s in arr {
            stats.state(s.as_u64().unwrap_or(0));
        }
    }
    stats.ops_executed += j.get("ops").and_then(|x| x.as_u64()).unwrap_or(0);
    stats.sim_time_ms += j.get("sim_ms").and_then(|x| x.as_u64()).unwrap_or(0);
    let violations = j
        .get("violations")
        .and_then(|x| x.as_arr())
        .map(|a| a.iter().map(parse_violation).collect())
        .unwrap_or_default();
    Outcome {
        violations,
        log_hash: j.get("log_hash").and_then(|x| x.as_u64()).unwrap_or(0),
        nontrivial: matches!(j.get("nontrivial"), Some(J::Bool(true))),
    }
}

/// The `exec1` sub-command: one plan from stdin, one JSON line on stdout.
pub fn exec1_main() {
    install_panic_hook();
    let mut text = String::new();
    std::io::Read::read_to_string(&mut std::io::stdin(), &mut text).expect("harness: stdin");
    let j = J::parse(&text).expect("harness: bad plan json");
    let plan = Plan::from_json(&j, crate::WORLDS).expect("harness: bad plan");
    let world = crate::WORLDS.iter().find(|w| w.name() == plan.world).unwrap();
    let mut stats = Stats::default();
    let outcome = world.execute(&plan, &mut stats);
    let mut counters = J::obj();
    for (k, v) in &stats.counters {
        counters.set(k, J::u(*v));
    }
    let out = J::obj()
        .with("violations", J::Arr(outcome.violations.iter().map(violation_json).collect()))
        .with("log_hash", J::u(outcome.log_hash))
        .with("nontrivial", J::Bool(outcome.nontrivial))
        .with("counters", counters)
        .with("states", J::Arr(stats.states.iter().map(|s| J::u(*s)).collect()))
        .with("ops", J::u(stats.ops_executed))
        .with("sim_ms", J::u(stats.sim_time_ms));
    println!("{}", out.to_string());
}

pub fn execute_world(world: &'static dyn World, plan: &Plan, stats: &mut Stats) -> Outcome {
    if world.process_per_run() {
        execute_in_child(plan, stats)
    } else {
        world.execute(plan, stats)
    }
}

pub struct Job {
    pub world: &'static dyn World,
    pub ask: Ask,
    pub runs: u64,
    /// Alternative worker executable (e.g. the AddressSanitizer build).
    pub exe: Option<PathBuf>,
    /// Offset added to run indices (so that a sanitizer replay covers the
    /// same plans as the native job, or a different slice).
    pub first_index: u64,
    pub label: &'static str,
}

pub struct Found {
    pub plan: Plan,
    pub violation: Violation,
    pub min_exec: u64,
    pub original_ops: usize,
}

pub struct WorkerResult {
    pub stats: Stats,
    pub batch_hash: u64,
    pub found: Vec<Found>,
    pub samples: Vec<J>,
}

fn violation_json(v: &Violation) -> J {
    J::obj()
        .with("property", J::str(v.prop))
        .with("invariant", J::str(&v.inv))
        .with("detail", J::str(&v.detail))
        .with(
            "at_op",
            if v.at_op == usize::MAX {
                J::str("end-of-run")
            } else {
                J::u(v.at_op as u64)
            },
        )
        .with("key", J::str(&v.key))
}

pub fn replay_json(plan: &Plan, v: &Violation, min_exec: u64, original_ops: usize) -> J {
    J::obj()
        .with("plan", plan.to_json())
        .with("expected", violation_json(v))
        .with("minimiser_executions", J::u(min_exec))
        .with("original_ops", J::u(original_ops as u64))
}

/// The body of a worker process: runs `from..to` of one job, writes its
/// result file.  Never returns a violation by exit status; the driver reads
/// the file (a missing file means the worker died).
pub fn worker_main(
    world: &'static dyn World,
    ask: Ask,
    seed: u64,
    from: u64,
    to: u64,
    out: &Path,
    max_found: usize,
) {
    install_panic_hook();
    let progress_path = out.with_extension("progress");
    let mut progress = std::fs::File::create(&progress_path).expect("harness: progress file");
    let mut stats = Stats::default();
    let mut found: Vec<Found> = Vec::new();
    let mut batch = crate::prng::LogHash::new();
    let mut samples = Vec::new();
    let deadline = std::env::var("VERIF_WORKER_DEADLINE_S")
        .ok()
        .and_then(|s| s.parse::<u64>().ok())
        .map(|s| Instant::now() + Duration::from_secs(s));
    let mut done = 0u64;
    for index in from..to {
        if let Some(d) = deadline {
            if Instant::now() > d {
                break;
            }
        }
        let plan = world.generate(seed, index, ask);
        {
            use std::os::unix::fs::FileExt;
            let _ = progress.write_at(&index.to_le_bytes(), 0);
        }
        let outcome = execute_world(world, &plan, &mut stats);
        stats.runs += 1;
        done += 1;
        batch.u64(index);
        batch.u64(outcome.log_hash);
        if outcome.nontrivial {
            stats.nontrivial_runs += 1;
            if stats.shapes.len() < STATE_CAP {
                stats.shapes.insert(plan.shape_hash());
            }
        }
        if samples.len() < 2 && outcome.nontrivial && plan.ops.len() <= 40 {
            samples.push(plan.to_json());
        }
        for v in outcome.violations {
            stats.bump("violations_seen");
            if v.prop != ask.prop {
                stats.bump(&format!("foreign.{}", v.prop));
                continue;
            }
            if found.len() < max_found && !found.iter().any(|f| f.violation.inv == v.inv) {
                let original_ops = plan.ops.len();
                let mut scratch = Stats::default();
                let res = minimise(
                    &plan,
                    v,
                    |cand| execute_world(world, cand, &mut scratch).violations,
                    Duration::from_secs(20),
                    2000,
                );
                found.push(Found {
                    plan: res.plan,
                    violation: res.violation,
                    min_exec: res.executions,
                    original_ops,
                });
            }
        }
    }
    let _ = progress.flush();
    let mut counters = J::obj();
    for (k, v) in &stats.counters {
        counters.set(k, J::u(*v));
    }
    let j = J::obj()
        .with("done", J::u(done))
        .with("batch_hash", J::u(batch.0))
        .with("runs", J::u(stats.runs))
        .with("nontrivial_runs", J::u(stats.nontrivial_runs))
        .with("ops_executed", J::u(stats.ops_executed))
        .with("sim_time_ms", J::u(stats.sim_time_ms))
        .with("counters", counters)
        .with("samples", J::Arr(samples))
        .with(
            "found",
            J::Arr(
                found
                    .iter()
                    .map(|f| replay_json(&f.plan, &f.violation, f.min_exec, f.original_ops))
                    .collect(),
            ),
        );
    // Distinct-state sets travel as raw little-endian u64 files.
    let dump = |path: PathBuf, set: &std::collections::HashSet<u64>| {
        let mut bytes = Vec::with_capacity(set.len() * 8);
        for v in set {
            bytes.extend_from_slice(&v.to_le_bytes());
        }
        std::fs::write(path, bytes).expect("harness: cannot write set");
    };
    dump(out.with_extension("states"), &stats.states);
    dump(out.with_extension("shapes"), &stats.shapes);
    std::fs::write(out, j.to_string()).expect("harness: cannot write worker result");
}

fn load_set(path: &Path, into: &mut std::collections::HashSet<u64>) {
    if let Ok(bytes) = std::fs::read(path) {
        for c in bytes.chunks_exact(8) {
            if into.len() >= STATE_CAP {
                break;
            }
            into.insert(u64::from_le_bytes(c.try_into().unwrap()));
        }
    }
}

pub struct JobResult {
    /// Run ranges (from, to) of the workers that died.
    pub crash_ranges: Vec<(u64, u64)>,
    pub stats: Stats,
    pub found: Vec<(J, Violation, Plan)>,
    pub crashes: Vec<(u64, String)>,
    pub batch_hash: u64,
    pub samples: Vec<J>,
    pub wall_s: f64,
}

fn parse_violation(j: &J) -> Violation {
    let prop_s = j.get("property").and_then(|x| x.as_str()).unwrap_or("");
    let prop = crate::PROPS
        .iter()
        .find(|p| **p == prop_s)
        .copied()
        .unwrap_or("C??");
    Violation {
        prop,
        inv: j
            .get("invariant")
            .and_then(|x| x.as_str())
            .unwrap_or("")
            .to_string(),
        detail: j
            .get("detail")
            .and_then(|x| x.as_str())
            .unwrap_or("")
            .to_string(),
        at_op: j
            .get("at_op")
            .and_then(|x| x.as_u64())
            .map(|x| x as usize)
            .unwrap_or(usize::MAX),
        key: j
            .get("key")
            .and_then(|x| x.as_str())
            .unwrap_or("")
            .to_string(),
    }
}

/// Runs one job on `workers` processes.
pub fn run_job(job: &Job, seed: u64, workers: usize, scratch: &Path, tag: &str) -> JobResult {
    let start = Instant::now();
    let exe = job.exe.clone().unwrap_or_else(|| std::env::current_exe().expect("current_exe"));
    let workers = workers.max(1).min(job.runs.max(1) as usize);
    let per = job.runs.div_ceil(workers as u64);
    let mut children = Vec::new();
    for w in 0..workers {
        let from = job.first_index + w as u64 * per;
        let to = job.first_index + ((w as u64 + 1) * per).min(job.runs);
        if from >= to {
            continue;
        }
        let out = scratch.join(format!("{}-{}-w{}.json", tag, job.world.name(), w));
        let child = Command::new(&exe)
            .arg("worker")
            .arg(job.world.name())
            .arg(job.ask.prop)
            .arg(if job.ask.thorough { "thorough" } else { "quick" })
            .arg(seed.to_string())
            .arg(from.to_string())
            .arg(to.to_string())
            .arg(&out)
            .stdin(Stdio::null())
            .stdout(Stdio::null())
            .stderr(Stdio::piped())
            .spawn()
            .expect("harness: cannot spawn worker");
        children.push((child, out, from, to));
    }
    let mut total = Stats::default();
    let mut found = Vec::new();
    let mut crashes = Vec::new();
    let mut crash_ranges = Vec::new();
    let mut batch = crate::prng::LogHash::new();
    let mut samples = Vec::new();
    // A worker that makes no progress for too long is killed and reported
    // like a dead worker (a hang of the code under test is a finding, a hang
    // of the harness must not block the batch).
    let timeout = std::env::var("VERIF_WORKER_TIMEOUT_S")
        .ok()
        .and_then(|s| s.parse::<u64>().ok())
        .unwrap_or(if job.ask.thorough { 7200 } else { 600 });
    let deadline = Instant::now() + Duration::from_secs(timeout);
    for (mut child, out, from, to) in children {
        loop {
            match child.try_wait() {
                Ok(Some(_)) => break,
                Ok(None) => {
                    if Instant::now() > deadline {
                        let _ = child.kill();
                        break;
                    }
                    std::thread::sleep(Duration::from_millis(20));
                }
                Err(_) => break,
            }
        }
        let output = child.wait_with_output().expect("harness: wait");
        let stderr = String::from_utf8_lossy(&output.stderr).to_string();
        if output.status.code() == Some(2) {
            eprintln!("harness error in worker:\n{}", stderr);
            std::process::exit(2);
        }
        let text = std::fs::read_to_string(&out);
        match text {
            Ok(text) if output.status.success() => {
                let j = J::parse(&text).expect("harness: bad worker json");
                let mut s = Stats::default();
                s.runs = j.get("runs").and_then(|x| x.as_u64()).unwrap_or(0);
                s.nontrivial_runs = j.get("nontrivial_runs").and_then(|x| x.as_u64()).unwrap_or(0);
                s.ops_executed = j.get("ops_executed").and_then(|x| x.as_u64()).unwrap_or(0);
                s.sim_time_ms = j.get("sim_time_ms").and_then(|x| x.as_u64()).unwrap_or(0);
                if let Some(J::Obj(m)) = j.get("counters") {
                    for (k, v) in m {
                        s.add(k, v.as_u64().unwrap_or(0));
                    }
                }
                load_set(&out.with_extension("states"), &mut s.states);
                load_set(&out.with_extension("shapes"), &mut s.shapes);
                total.merge(&s);
                batch.u64(j.get("batch_hash").and_then(|x| x.as_u64()).unwrap_or(0));
                if let Some(arr) = j.get("samples").and_then(|x| x.as_arr()) {
                    for s in arr {
                        if samples.len() < 3 {
                            samples.push(s.clone());
                        }
                    }
                }
                if let Some(arr) = j.get("found").and_then(|x| x.as_arr()) {
                    for f in arr {
                        let v = parse_violation(f.get("expected").unwrap());
                        let plan = Plan::from_json(f.get("plan").unwrap(), crate::WORLDS)
                            .expect("harness: bad plan json");
                        found.push((f.clone(), v, plan));
                    }
                }
            }
            _ => {
                // The worker died (abort, signal, sanitizer report).
                let idx = std::fs::read(out.with_extension("progress"))
                    .ok()
                    .filter(|b| b.len() >= 8)
                    .map(|b| u64::from_le_bytes(b[..8].try_into().unwrap()))
                    .unwrap_or(from);
                let last = stderr
                    .lines()
                    .filter(|l| !l.trim().is_empty())
                    .take(12)
                    .collect::<Vec<_>>()
                    .join(" | ");
                crash_ranges.push((from, to));
                crashes.push((
                    idx,
                    format!(
                        "worker for runs {}..{} died ({:?}) in run {}: {}",
                        from, to, output.status, idx, last
                    ),
                ));
            }
        }
        for ext in ["json", "progress", "states", "shapes"] {
            let _ = std::fs::remove_file(out.with_extension(ext));
        }
    }
    JobResult {
        crash_ranges,
        stats: total,
        found,
        crashes,
        batch_hash: batch.0,
        samples,
        wall_s: start.elapsed().as_secs_f64(),
    }
}

/// Runs `from..to` of a world in one fresh process; true if the process survives.
pub fn exec_range_survives(exe: &Path, world: &str, ask: Ask, seed: u64, from: u64, to: u64) -> bool {
    let st = Command::new(exe)
        .args(["exec-range", world, ask.prop, if ask.thorough { "thorough" } else { "quick" }, &seed.to_string(), &from.to_string(), &to.to_string()])
        .stdin(Stdio::null())
        .stdout(Stdio::null())
        .stderr(Stdio::null())
        .status();
    matches!(st, Ok(s) if s.code() == Some(0) || s.code() == Some(1))
}

/// Executes one plan in a fresh process; returns (exit code or None if
/// killed by a signal, stdout).
pub fn exec_plan_fresh(path: &Path) -> (Option<i32>, String, String) {
    let exe = std::env::current_exe().expect("current_exe");
    let out = Command::new(exe)
        .arg("replay")
        .arg(path)
        .stdin(Stdio::null())
        .output()
        .expect("harness: cannot spawn replay");
    (
        out.status.code(),
        String::from_utf8_lossy(&out.stdout).to_string(),
        String::from_utf8_lossy(&out.stderr).to_string(),
    )
}

pub struct Known {
    pub prop: String,
    pub key: String,
    pub text: String,
}

/// `known_findings.txt`: lines `known: property=<id> key=<key> <text>` list
/// genuine, unrepaired defects; `fixed:` lines are documentation and
/// suppress nothing.
pub fn load_known(root: &Path) -> Vec<Known> {
    let mut out = Vec::new();
    if let Ok(text) = std::fs::read_to_string(root.join("known_findings.txt")) {
        for line in text.lines() {
            let Some(rest) = line.strip_prefix("known:") else {
                continue;
            };
            let mut prop = String::new();
            let mut key = String::new();
            let mut words = Vec::new();
            for w in rest.split_whitespace() {
                if let Some(p) = w.strip_prefix("property=") {
                    prop = p.to_string();
                } else if let Some(k) = w.strip_prefix("key=") {
                    key = k.to_string();
                } else {
                    words.push(w);
                }
            }
            if !prop.is_empty() && !key.is_empty() {
                out.push(Known {
                    prop,
                    key,
                    text: words.join(" "),
                });
            }
        }
    }
    out
}

pub struct CheckReport {
    pub exit: i32,
}

/// Runs all jobs of one check, prints the verdict lines, writes evidence.
pub fn run_check(
    prop: &'static str,
    thorough: bool,
    seed: u64,
    workers: usize,
    jobs: Vec<Job>,
    level: &str,
    extra: Option<J>,
    extra_lines: Vec<String>,
    extra_violations: u64,
) -> CheckReport {
    let start = Instant::now();
    let root = verif_root();
    let scratch = scratch_dir();
    let known = load_known(&root);
    println!(
        "check property={} tier={} VERIF_SEED={} workers={}",
        prop,
        if thorough { "thorough" } else { "quick" },
        seed,
        workers
    );
    let mut total = Stats::default();
    let mut reported: Vec<String> = Vec::new();
    let mut known_hits: Vec<String> = Vec::new();
    let mut foreign: BTreeMap<String, u64> = BTreeMap::new();
    let mut samples = Vec::new();
    let mut per_world = Vec::new();
    let mut real = Vec::new();
    let mut stubs = Vec::new();
    let mut rules = Vec::new();
    let replay_dir = root.join("replays");
    let _ = std::fs::create_dir_all(&replay_dir);
    let mut violations = 0u64;

    for (ji, job) in jobs.iter().enumerate() {
        let res = run_job(job, seed, workers, &scratch, &format!("{}-{}", prop, ji));
        let (r, s) = job.world.components();
        for x in r {
            if !real.contains(&x) {
                real.push(x);
            }
        }
        for x in s {
            if !stubs.contains(&x) {
                stubs.push(x);
            }
        }
        rules.push(format!("[{}] {}", job.world.name(), job.world.rule()));
        per_world.push(
            J::obj()
                .with("world", J::str(job.world.name()))
                .with("engine", J::str(if job.label.is_empty() { "native" } else { job.label }))
                .with("runs", J::u(res.stats.runs))
                .with("nontrivial_runs", J::u(res.stats.nontrivial_runs))
                .with("ops_executed", J::u(res.stats.ops_executed))
                .with("distinct_plan_shapes", J::u(res.stats.shapes.len() as u64))
                .with("distinct_abstract_states", J::u(res.stats.states.len() as u64))
                .with("wall_s", J::Float(res.wall_s))
                .with(
                    "runs_per_hour",
                    J::u((res.stats.runs as f64 / res.wall_s.max(0.001) * 3600.0) as u64),
                )
                .with("batch_log_hash", J::str(&format!("{:016x}", res.batch_hash))),
        );
        for s in &res.samples {
            if samples.len() < 4 {
                samples.push(s.clone());
            }
        }
        for (idx, text) in &res.crashes {
            // A dead worker: regenerate the plan, minimise it by re-executing
            // candidates in fresh processes, write it as the replay file.
            let plan = job.world.generate(seed, *idx, job.ask);
            // A dead process is a memory-safety finding of its world; for the
            // property being checked it also means that the history did not produce
            // the result the property promises (no panic, a complete round trip, ...).
            let world_crash_prop = crate::crash_property(job.world.name());
            let crash_prop = if job.world.serves().contains(&prop) { prop } else { world_crash_prop };
            let exe = job.exe.clone().unwrap_or_else(|| std::env::current_exe().expect("current_exe"));
            let v0 = Violation {
                prop: world_crash_prop,
                inv: format!("{}.process_died", world_crash_prop),
                detail: text.clone(),
                at_op: usize::MAX,
                key: String::new(),
            };
            let mut scratch_stats = Stats::default();
            let original_ops = plan.ops.len();
            let first = execute_in_child_with(&exe, &plan, &mut scratch_stats).violations.into_iter().find(|v| v.inv == v0.inv);
            let mut range_replay: Option<(u64, u64)> = None;
            let (plan, v, execs) = match first {
                Some(v1) => {
                    let res = minimise(&plan, v1, |cand| execute_in_child_with(&exe, cand, &mut scratch_stats).violations, Duration::from_secs(120), 400);
                    (res.plan, res.violation, res.executions)
                }
                None => {
                    // The plan alone does not kill a fresh process: the death depends on
                    // what the same process executed before (heap state).  Fall back to
                    // replaying the worker's own run range, shortened from the front.
                    let worker_from = res.crash_ranges.iter().find(|(f, t)| *f <= *idx && *idx < *t).map(|(f, _)| *f).unwrap_or(*idx);
                    let dies = |from: u64| -> bool { !exec_range_survives(&exe, job.world.name(), job.ask, seed, from, *idx + 1) };
                    let mut execs = 0u64;
                    if dies(worker_from) {
                        let mut lo = worker_from; // known to die
                        let mut hi = *idx; // single plan known to survive
                        while hi - lo > 1 && execs < 14 {
                            let mid = lo + (hi - lo) / 2;
                            execs += 1;
                            if dies(mid) {
                                lo = mid;
                            } else {
                                hi = mid;
                            }
                        }
                        range_replay = Some((lo, *idx + 1));
                    }
                    (plan, v0, execs)
                }
            };
            let v = Violation { prop: crash_prop, inv: format!("{}.process_died", crash_prop), ..v };
            let path = replay_dir.join(format!("{}-{}-{}crash{}.json", crash_prop, seed, job.label, idx));
            let mut rj = replay_json(&plan, &v, execs, original_ops);
            if let Some(e) = &job.exe {
                rj.set("replay_with", J::str(&e.display().to_string()));
            }
            if let Some((from, to)) = range_replay {
                rj.set(
                    "replay_range",
                    J::obj()
                        .with("world", J::str(job.world.name()))
                        .with("prop", J::str(job.ask.prop))
                        .with("thorough", J::Bool(job.ask.thorough))
                        .with("seed", J::u(seed))
                        .with("from", J::u(from))
                        .with("to", J::u(to)),
                );
                rj.set("note", J::str("the last plan alone does not kill a fresh process; the replay re-executes this range of run indices in one process"));
            }
            std::fs::write(&path, rj.pretty()).expect("harness: cannot write replay");
            if crash_prop == prop {
                violations += 1;
                reported.push(format!(
                    "VIOLATION property={} replay={}",
                    prop,
                    path.display()
                ));
                println!("  {}", text);
            } else {
                *foreign.entry(crash_prop.to_string()).or_insert(0) += 1;
            }
        }
        let mut best: BTreeMap<String, usize> = BTreeMap::new();
        for (n, (_, v, plan)) in res.found.iter().enumerate() {
            match best.get(&v.inv) {
                Some(&m) if res.found[m].2.ops.len() <= plan.ops.len() => {}
                _ => {
                    best.insert(v.inv.clone(), n);
                }
            }
        }
        for (n, (fj, v, _plan)) in res.found.iter().enumerate() {
            if best.get(&v.inv) != Some(&n) {
                continue;
            }
            if v.prop != prop {
                *foreign.entry(v.prop.to_string()).or_insert(0) += 1;
                continue;
            }
            let path = replay_dir.join(format!(
                "{}-{}-{}-{}.json",
                prop,
                seed,
                job.world.name(),
                reported.len() + known_hits.len() + n
            ));
            std::fs::write(&path, fj.pretty()).expect("harness: cannot write replay");
            // Confirm in a fresh process.
            let (code, out, _err) = exec_plan_fresh(&path);
            let confirmed = code == Some(1) && out.contains("VIOLATION");
            let is_known = known
                .iter()
                .find(|k| k.prop == prop && !v.key.is_empty() && k.key == v.key);
            if let Some(k) = is_known {
                known_hits.push(format!(
                    "KNOWN-FINDING: property={} key={} {}",
                    prop, k.key, k.text
                ));
                let _ = std::fs::remove_file(&path);
                continue;
            }
            violations += 1;
            println!(
                "  invariant {} after op {}: {}{}",
                v.inv,
                if v.at_op == usize::MAX {
                    "end".to_string()
                } else {
                    v.at_op.to_string()
                },
                v.detail,
                if confirmed {
                    " [reproduced in a fresh process]"
                } else {
                    " [NOT reproduced in a fresh process]"
                }
            );
            reported.push(format!(
                "VIOLATION property={} replay={}",
                prop,
                path.display()
            ));
        }
        for (k, n) in &res.stats.counters {
            if let Some(p) = k.strip_prefix("foreign.") {
                *foreign.entry(p.to_string()).or_insert(0) += *n;
            }
        }
        total.merge(&res.stats);
    }

    known_hits.sort();
    known_hits.dedup();
    for k in &known_hits {
        println!("{}", k);
    }
    for (p, n) in &foreign {
        println!(
            "NOTE: {} violation(s) of {} were seen in shared runs; they are reported by that property's own check",
            n, p
        );
    }
    for r in &reported {
        println!("{}", r);
    }
    for l in &extra_lines {
        println!("{}", l);
    }
    violations += extra_violations;

    let wall = start.elapsed().as_secs_f64();
    let mut counters = J::obj();
    let mut faults = J::obj();
    let mut probes = J::obj();
    let mut ops = J::obj();
    for (k, v) in &total.counters {
        if let Some(f) = k.strip_prefix("fault.") {
            faults.set(f, J::u(*v));
        } else if let Some(p) = k.strip_prefix("probe.") {
            probes.set(p, J::u(*v));
        } else if let Some(o) = k.strip_prefix("op.") {
            ops.set(o, J::u(*v));
        } else {
            counters.set(k, J::u(*v));
        }
    }
    let mut foreign_j = J::obj();
    for (p, n) in &foreign {
        foreign_j.set(p, J::u(*n));
    }
    if samples.is_empty() {
        samples.push(J::str("no short non-trivial plan in this batch"));
    }
    let mut coverage = J::obj()
        .with("evaluations", J::u(total.runs))
        .with("distinct_nontrivial", J::u(total.shapes.len() as u64))
        .with("rule", J::str(&rules.join(" ; ")))
        .with("samples", J::Arr(samples))
        .with("nontrivial_runs", J::u(total.nontrivial_runs))
        .with("operations_executed", J::u(total.ops_executed))
        .with("distinct_abstract_states", J::u(total.states.len() as u64))
        .with(
            "runs_per_hour",
            J::u((total.runs as f64 / wall.max(0.001) * 3600.0) as u64),
        )
        .with("simulated_time_ms", J::u(total.sim_time_ms))
        .with("faults_fired", faults)
        .with("probes_hit", probes)
        .with("operations_by_kind", ops)
        .with("other_counters", counters)
        .with("per_world", J::Arr(per_world))
        .with("violations_of_other_properties_seen", foreign_j)
        .with(
            "known_findings_hit",
            J::Arr(known_hits.iter().map(|s| J::str(s)).collect()),
        )
        .with(
            "components_real",
            J::Arr(real.iter().map(|s| J::str(s)).collect()),
        )
        .with(
            "components_stubbed",
            J::Arr(stubs.iter().map(|s| J::str(s)).collect()),
        )
        .with("exhaustive", J::Bool(false));
    if let Some(J::Obj(m)) = extra {
        for (k, v) in m {
            coverage.set(&k, v);
        }
    }
    let evidence = J::obj()
        .with("property_id", J::str(prop))
        .with("tier", J::str(if thorough { "thorough" } else { "quick" }))
        .with("seed", J::u(seed))
        .with("level", J::str(level))
        .with("coverage", coverage)
        .with(
            "assumptions",
            J::Arr(vec![
                J::str("sampling, not proof: a clean batch is evidence over the seeds explored"),
                J::str("reference models (shadow pipe, reference codec/reader/read_n, history oracle) are trusted"),
                J::str("hooks compiled with --cfg woodpile_verif do not change behaviour (add-only, pass-through by default)"),
            ]),
        )
        .with("wall_s", J::Float(wall))
        .with("violations", J::u(violations));
    let evidence_dir = root.join("evidence");
    let _ = std::fs::create_dir_all(&evidence_dir);
    if std::fs::write(evidence_dir.join(format!("{}.json", prop)), evidence.pretty()).is_err() {
        eprintln!("harness: cannot write evidence");
        let _ = std::fs::remove_dir_all(&scratch);
        return CheckReport { exit: 2 };
    }
    let _ = std::fs::remove_dir_all(&scratch);
    println!(
        "done property={} runs={} nontrivial={} distinct_shapes={} states={} wall={:.1}s violations={}",
        prop,
        total.runs,
        total.nontrivial_runs,
        total.shapes.len(),
        total.states.len(),
        wall,
        violations
    );
    CheckReport {
        exit: if violations > 0 { 1 } else { 0 },
    }
}
