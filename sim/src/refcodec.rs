//! Reference hybrid-COBS codec and reference delimited-record reader, written
//! from the format description only.  Shares no constant or code with /repo.
//!
//! Format: a message is a sequence of chunks.  A chunk is a length header
//! followed by that many payload bytes.  The first chunk has a one-byte
//! header and holds at most `m1` bytes; later chunks have a two-byte
//! little-endian radix-253 header and hold at most `m2` bytes.  A chunk that
//! is shorter than its limit stands for "payload, then the two bytes FE FD";
//! a chunk of exactly the limit stands for just its payload.  The encoder is
//! greedy: a chunk ends at the first FE FD that fits entirely inside the
//! window of `limit` bytes (the FE FD itself is dropped), else after `limit`
//! bytes, else (input exhausted) at the end of input.  The message must end
//! on a short chunk, whose implicit FE FD is the terminator and is not part
//! of the message.

const FE: u8 = 0xFE;
const FD: u8 = 0xFD;
const BASE: usize = 253;

pub const PROD_M1: usize = 252;
pub const PROD_M2: usize = 64008;

fn find_stuff(window: &[u8]) -> Option<usize> {
    (0..window.len().saturating_sub(1)).find(|&i| window[i] == FE && window[i + 1] == FD)
}

fn put_header(out: &mut Vec<u8>, first: bool, size: usize) {
    if first {
        out.push(size as u8);
    } else {
        out.push((size % BASE) as u8);
        out.push((size / BASE) as u8);
    }
}

pub fn encode(plain: &[u8], m1: usize, m2: usize) -> Vec<u8> {
    let mut out = Vec::with_capacity(plain.len() + plain.len() / 1000 + 8);
    let mut pos = 0;
    let mut first = true;
    loop {
        let limit = if first { m1 } else { m2 };
        let end = (pos + limit).min(plain.len());
        let window = &plain[pos..end];
        if let Some(i) = find_stuff(window) {
            put_header(&mut out, first, i);
            out.extend_from_slice(&window[..i]);
            pos += i + 2;
        } else if window.len() == limit {
            put_header(&mut out, first, limit);
            out.extend_from_slice(window);
            pos += limit;
        } else {
            put_header(&mut out, first, window.len());
            out.extend_from_slice(window);
            return out;
        }
        first = false;
    }
}

/// How full the chunk currently open after `plain` is, and its limit (used
/// to aim payload patterns at chunk boundaries).
pub fn open_chunk_fill(plain: &[u8], m1: usize, m2: usize) -> (usize, usize) {
    let mut pos = 0;
    let mut first = true;
    loop {
        let limit = if first { m1 } else { m2 };
        let end = (pos + limit).min(plain.len());
        let window = &plain[pos..end];
        if let Some(i) = find_stuff(window) {
            pos += i + 2;
        } else if window.len() == limit {
            pos += limit;
        } else {
            return (window.len(), limit);
        }
        first = false;
    }
}

/// `None` = rejected.
pub fn decode(wire: &[u8], m1: usize, m2: usize) -> Option<Vec<u8>> {
    let mut out = Vec::with_capacity(wire.len());
    let mut pos = 0;
    let mut first = true;
    // Whether the previous chunk was short (its FE FD is owed).
    let mut owed = false;
    if wire.is_empty() {
        return None;
    }
    loop {
        if pos == wire.len() {
            // End of input between chunks: fine only right after a short chunk.
            return if !first && owed { Some(out) } else { None };
        }
        let (size, limit) = if first {
            let b = wire[pos] as usize;
            pos += 1;
            if b > m1 {
                return None;
            }
            (b, m1)
        } else {
            if owed {
                out.push(FE);
                out.push(FD);
            }
            let lo = wire[pos] as usize;
            if lo >= BASE {
                return None;
            }
            if pos + 1 >= wire.len() {
                return None;
            }
            let hi = wire[pos + 1] as usize;
            if hi >= BASE {
                return None;
            }
            pos += 2;
            let size = lo + hi * BASE;
            if size > m2 {
                return None;
            }
            (size, m2)
        };
        if pos + size > wire.len() {
            return None;
        }
        out.extend_from_slice(&wire[pos..pos + size]);
        pos += size;
        owed = size < limit;
        first = false;
    }
}

#[derive(Clone, Debug, PartialEq, Eq)]
pub struct Segment {
    pub start: u64,
    pub end: u64,
    /// Decoded contents if the segment is a valid encoding.
    pub decoded: Option<Vec<u8>>,
}

pub struct Tokenised {
    pub segments: Vec<Segment>,
    /// Start offsets of every FE FD delimiter, in order.
    pub delimiters: Vec<u64>,
}

/// Splits a stream at every FE FD (scanning left to right, non-overlapping);
/// the maximal delimiter-free runs in between are the segments.
pub fn tokenise(stream: &[u8]) -> Tokenised {
    let mut segments = Vec::new();
    let mut delimiters = Vec::new();
    let mut i = 0;
    let mut seg_start: Option<usize> = None;
    let close = |seg_start: &mut Option<usize>, end: usize, segments: &mut Vec<Segment>| {
        if let Some(s) = seg_start.take() {
            segments.push(Segment {
                start: s as u64,
                end: end as u64,
                decoded: decode(&stream[s..end], PROD_M1, PROD_M2),
            });
        }
    };
    while i < stream.len() {
        if i + 1 < stream.len() && stream[i] == FE && stream[i + 1] == FD {
            close(&mut seg_start, i, &mut segments);
            delimiters.push(i as u64);
            i += 2;
        } else {
            if seg_start.is_none() {
                seg_start = Some(i);
            }
            i += 1;
        }
    }
    close(&mut seg_start, stream.len(), &mut segments);
    Tokenised {
        segments,
        delimiters,
    }
}

#[cfg(test)]
mod tests {
    use super::*;

    #[test]
    fn examples() {
        assert_eq!(encode(b"", 3, 5), vec![0]);
        assert_eq!(encode(b"abc", 252, 64008), vec![3, b'a', b'b', b'c']);
        // 3/5 limits: "abc" fills the first chunk, then an empty short chunk.
        assert_eq!(encode(b"abc", 3, 5), vec![3, b'a', b'b', b'c', 0, 0]);
        assert_eq!(encode(&[1, FE, FD, 2], 252, 64008), vec![1, 1, 1, 0, 2]);
        for m1 in 1..5 {
            for m2 in 1..6 {
                for n in 0..2000u32 {
                    let mut x = n;
                    let mut v = Vec::new();
                    while x > 0 {
                        v.push([1, FE, FD, 0][(x % 4) as usize]);
                        x /= 4;
                    }
                    let w = encode(&v, m1, m2);
                    assert!(find_stuff(&w).is_none());
                    assert_eq!(decode(&w, m1, m2).as_deref(), Some(&v[..]), "{:?}", v);
                }
            }
        }
    }
}
