//! World P/stream: a log written by a (crashing) writer onto a faulty disk,
//! read back through `StreamChunker::pump` (C08) and
//! `StreamReader::next_record_bytes` (C06) via a reader that delivers short
//! reads and interrupted calls, with every I/O block size.
//!
//! Also serves C05 (held records / chunks stay intact) and C10 (drop, and a
//! long log read with a bounded footprint).
use std::num::NonZeroUsize;
use std::ops::Range;
use std::panic::AssertUnwindSafe;

use hcobs::Chunk;
use hcobs::StreamAction;
use hcobs::StreamChunker;
use hcobs::StreamReader;
use owning_iovec::AnchoredSlice;
use owning_iovec::ByteArena;
use owning_iovec::ConsumingIovec;
use owning_iovec::OwningIovec;

use crate::plan::*;
use crate::prng::LogHash;
use crate::prng::Rng;
use crate::refcodec;
use crate::simio::*;
use crate::w_codec::V;
use crate::w_iovec::panic_message;

pub struct StreamWorld;

pub const KINDS: &[&str] = &[
    "rec", "delim", "garbage", "torn", "flip", "dup", "trunc", "ins", "del", "align",
];

/// Block sizes (indices into BLOCKS) and distances an `align` operation can aim at.
const ALIGN_BLOCKS: &[(u64, usize)] = &[(10, 4096), (9, 64), (8, 16), (10, 4096)];
const ALIGN_BACK: &[usize] = &[253, 253, 254, 252, 255, 0, 1, 2, 3, 251];

pub const BLOCKS: &[u64] = &[0, 1, 2, 3, 4, 5, 7, 8, 16, 64, 4096, u64::MAX];

/// A reader over a byte string that delivers short reads and interrupted
/// calls according to its own seeded generator.
pub struct FaultyStream<'a> {
    pub src: &'a [u8],
    pub pos: usize,
    rng: Rng,
    short_pct: u64,
    eintr_pct: u64,
    pub fired: [u64; 4], // short, full, eintr, eof
    pub eof_seen: bool,
}

impl<'a> FaultyStream<'a> {
    pub fn new(src: &'a [u8], seed: u64) -> Self {
        let mut rng = Rng::new(seed ^ 0xfa17);
        let (short_pct, eintr_pct) = if seed == 0 {
            (0, 0)
        } else {
            (*rng.pick(&[0u64, 10, 50, 90]), *rng.pick(&[0u64, 5, 30]))
        };
        FaultyStream { src, pos: 0, rng, short_pct, eintr_pct, fired: [0; 4], eof_seen: false }
    }
}

impl std::io::Read for FaultyStream<'_> {
    fn read(&mut self, dst: &mut [u8]) -> std::io::Result<usize> {
        if self.rng.below(100) < self.eintr_pct {
            self.fired[2] += 1;
            return Err(std::io::Error::new(std::io::ErrorKind::Interrupted, "sim EINTR"));
        }
        let left = self.src.len() - self.pos;
        let mut n = dst.len().min(left);
        if n > 1 && self.rng.below(100) < self.short_pct {
            n = match self.rng.below(3) {
                0 => 1,
                1 => self.rng.range(1, n as u64) as usize,
                _ => n - 1,
            };
            self.fired[0] += 1;
        } else if n == 0 {
            self.fired[3] += 1;
            if !dst.is_empty() {
                self.eof_seen = true;
            }
        } else {
            self.fired[1] += 1;
        }
        dst[..n].copy_from_slice(&self.src[self.pos..self.pos + n]);
        self.pos += n;
        Ok(n)
    }
}

/// Builds the on-disk log from the writer and disk-fault operations.
fn build_log(plan: &Plan, stats: &mut Stats) -> Vec<u8> {
    let mut log: Vec<u8> = Vec::new();
    for op in &plan.ops {
        let a = op.a;
        match op.k {
            "rec" | "torn" => {
                let payload = pool_slice(a[1], a[0]);
                let encoded = if a[2] % 4 == 3 {
                    // The real encoder, so that reader checks also see its output.
                    let mut e = hcobs::Encoder::new();
                    e.encode(payload);
                    e.finish().flatten().unwrap_or_else(|v| v)
                } else {
                    refcodec::encode(payload, refcodec::PROD_M1, refcodec::PROD_M2)
                };
                if op.k == "torn" {
                    let cut = (a[3] as usize) % (encoded.len() + 1);
                    log.extend_from_slice(&encoded[..cut]);
                    stats.bump("fault.torn_record");
                } else {
                    log.extend_from_slice(&encoded);
                }
            }
            "delim" => {
                for _ in 0..(a[0] % 4) {
                    log.extend_from_slice(&[0xFE, 0xFD]);
                }
            }
            "align" => {
                // Pads with delimiters (and one empty record when the distance is
                // odd) until the log ends `back` bytes before a multiple of the I/O
                // block size: what follows ends on, or straddles, a block boundary
                // at a chosen place (253 = a maximal first chunk ends the block).
                let b = ALIGN_BLOCKS[(a[0] as usize) % ALIGN_BLOCKS.len()].1;
                let back = ALIGN_BACK[(a[1] as usize) % ALIGN_BACK.len()] % b;
                let mut d = (2 * b - back - log.len() % b) % b;
                if d % 2 == 1 && d < 5 {
                    d += b;
                }
                if d % 2 == 1 {
                    log.extend_from_slice(&[0xFE, 0xFD, 0x00, 0xFE, 0xFD]);
                    d -= 5;
                }
                for _ in 0..d / 2 {
                    log.extend_from_slice(&[0xFE, 0xFD]);
                }
                stats.bump("op.align");
            }
            "garbage" => {
                let n = (a[1] % 300) as usize;
                match a[0] % 4 {
                    0 => log.extend_from_slice(pool_slice(a[2], n as u64)),
                    1 => {
                        // Header-like: a plausible length byte and too little or too much data.
                        log.push((a[2] % 256) as u8);
                        log.extend_from_slice(pool_slice(a[2], (n % 40) as u64));
                    }
                    2 => {
                        let frag: &[&[u8]] = &[&[0xFE], &[0xFD], &[0xFE, 0xFE], &[0xFD, 0xFE], &[0xFE, 0xFE, 0xFD]];
                        log.extend_from_slice(frag[(a[2] % 5) as usize]);
                    }
                    _ => {
                        let (off, len) = region(1);
                        log.extend_from_slice(pool_slice(off as u64 + a[2] % (len as u64 / 2), n as u64));
                    }
                }
                stats.bump("fault.garbage");
            }
            _ => {}
        }
    }
    for op in &plan.ops {
        let a = op.a;
        if log.is_empty() {
            break;
        }
        let pos = (a[0] as usize) % log.len();
        match op.k {
            "flip" => {
                let n = (1 + a[2] % 8) as usize;
                for i in 0..n.min(log.len() - pos) {
                    log[pos + i] = if a[1] % 3 == 0 { [0xFE, 0xFD][(i + a[1] as usize / 3) % 2] } else { (a[1] as u8).wrapping_add(i as u8) };
                }
                stats.bump("fault.overwrite");
            }
            "dup" => {
                let n = ((a[1] % 64) as usize).min(log.len() - pos);
                let span = log[pos..pos + n].to_vec();
                let at = pos + n;
                log.splice(at..at, span);
                stats.bump("fault.duplicated_span");
            }
            "trunc" => {
                log.truncate(pos);
                stats.bump("fault.truncated_tail");
            }
            "ins" => {
                if a[1] % 2 == 0 {
                    log.splice(pos..pos, [0xFE, 0xFD]);
                    stats.bump("fault.inserted_delimiter");
                } else {
                    log.insert(pos, a[1] as u8);
                    stats.bump("fault.inserted_byte");
                }
            }
            "del" => {
                log.remove(pos);
                stats.bump("fault.deleted_byte");
            }
            _ => {}
        }
    }
    log
}

fn prep_arena(arena: &mut ByteArena, prep: u64) {
    match prep % 4 {
        1 => {
            // Leave only a few bytes in the current chunk.
            arena.ensure_capacity(4096);
            let n = arena.remaining().saturating_sub((prep / 4 % 7) as usize);
            let zeros = vec![0u8; n];
            let _ = arena.read_n(&zeros[..], n, NonZeroUsize::new(1).unwrap());
        }
        2 => arena.ensure_capacity(1 << 16),
        _ => {}
    }
}

fn skip_pred(start: u64, seed: u64) -> bool {
    crate::prng::mix(&[start, seed]) % 3 == 0
}

struct Cfg {
    block: usize,
    block_opt: Option<usize>,
    max_record: usize,
    limit: Option<u64>,
    custom_judge: bool,
    judge_seed: u64,
    read_seed: u64,
    hold: bool,
    arena_prep: u64,
    /// Continue with a clone of the chunker / reader after this many calls (0: never).
    clone_at: usize,
}

fn cfg(plan: &Plan) -> Cfg {
    let b = BLOCKS[(plan.knob("block") as usize) % BLOCKS.len()];
    Cfg {
        block: if b == u64::MAX { hcobs::DEFAULT_BLOCK_SIZE } else { b as usize },
        block_opt: if b == u64::MAX { None } else { Some(b as usize) },
        max_record: if plan.knob("max_record") == 0 { usize::MAX } else { plan.knob("max_record") as usize - 1 },
        limit: if plan.knob("limit") == 0 { None } else { Some(plan.knob("limit") - 1) },
        custom_judge: plan.knob("custom_judge") != 0,
        judge_seed: plan.knob("judge_seed"),
        read_seed: plan.knob("read_seed"),
        hold: plan.knob("hold") != 0,
        arena_prep: plan.knob("arena_prep"),
        clone_at: plan.knob("clone_at") as usize,
    }
}

fn push_v(vs: &mut Vec<V>, prop: &'static str, inv: &'static str, detail: String) {
    if !vs.iter().any(|v| v.inv == inv) {
        vs.push(V { prop, inv, detail, at: usize::MAX });
    }
}

fn fault_stats(r: &FaultyStream<'_>, stats: &mut Stats) {
    for (i, name) in ["short_read", "full_read", "eintr", "eof"].iter().enumerate() {
        if r.fired[i] > 0 {
            stats.add(&format!("fault.{}", name), r.fired[i]);
        }
    }
}

/// C08: pump until Eof and check the tiling.
fn run_chunker(stream: &[u8], c: &Cfg, vs: &mut Vec<V>, stats: &mut Stats, log: &mut LogHash) {
    let mut chunker = StreamChunker::default();
    let mut arena = ByteArena::new();
    prep_arena(&mut arena, c.arena_prep);
    let mut spare = ByteArena::new();
    let mut reader = FaultyStream::new(stream, c.read_seed);
    let mut rebuilt: Vec<u8> = Vec::with_capacity(stream.len());
    let mut held: Vec<(AnchoredSlice, Vec<u8>)> = Vec::new();
    let mut prev_data_ended_fe = false;
    let mut sentinels = 0u64;
    let budget = stream.len() * 2 + 16;
    let mut pumps = 0usize;
    loop {
        pumps += 1;
        if pumps > budget {
            push_v(vs, "C08", "C08.no_progress", format!("no Eof after {} pumps on a {}-byte stream", pumps, stream.len()));
            break;
        }
        if c.arena_prep % 4 == 3 && pumps % 3 == 0 {
            std::mem::swap(&mut arena, &mut spare);
        }
        if c.clone_at != 0 && pumps == c.clone_at {
            // Rarely used entry point: carry on with a clone, drop the original.
            let copy = chunker.clone();
            chunker = copy;
            stats.bump("probe.continued_with_a_clone");
        }
        let chunk = match chunker.pump(&mut arena, &mut reader, c.block) {
            Ok(chunk) => chunk,
            Err(e) => {
                push_v(vs, "C08", "C08.io_error", format!("pump failed although the reader only injects EINTR and short reads: {}", e));
                break;
            }
        };
        stats.ops_executed += 1;
        match chunk {
            Chunk::Eof => {
                if rebuilt.len() != stream.len() {
                    push_v(vs, "C08", "C08.early_eof", format!("Eof after {} of {} bytes (block size {})", rebuilt.len(), stream.len(), c.block));
                } else if !reader.eof_seen && !stream.is_empty() {
                    push_v(vs, "C08", "C08.early_eof", "Eof before the reader reported end of stream".into());
                }
                // Eof must be sticky.
                match chunker.pump(&mut arena, &mut reader, c.block) {
                    Ok(Chunk::Eof) => {}
                    _ => push_v(vs, "C08", "C08.eof_not_sticky", "pump after Eof returned something else".into()),
                }
                break;
            }
            Chunk::Sentinel(off) => {
                rebuilt.extend_from_slice(&[0xFE, 0xFD]);
                sentinels += 1;
                prev_data_ended_fe = false;
                if off != rebuilt.len() as u64 {
                    push_v(vs, "C08", "C08.offset", format!("Sentinel reports end offset {}, running total {}", off, rebuilt.len()));
                }
                log.u64(off);
            }
            Chunk::Data((off, slice)) => {
                let s = slice.slice();
                if s.is_empty() {
                    push_v(vs, "C08", "C08.empty_data", "empty Data chunk".into());
                }
                if (0..s.len().saturating_sub(1)).any(|i| s[i] == 0xFE && s[i + 1] == 0xFD) {
                    push_v(vs, "C08", "C08.sentinel_in_data", format!("Data chunk ending at {} contains FE FD", off));
                }
                if prev_data_ended_fe && s.first() == Some(&0xFD) {
                    push_v(vs, "C08", "C08.sentinel_straddles", format!("FE FD straddles two Data chunks at offset {}", rebuilt.len()));
                }
                if !s.is_empty() && owning_iovec::verif::locate(s.as_ptr(), s.len()).is_none() {
                    push_v(vs, "C05", "C05.chunk_dangling", "Data chunk is not inside a live arena chunk".into());
                }
                prev_data_ended_fe = s.last() == Some(&0xFE);
                rebuilt.extend_from_slice(s);
                if off != rebuilt.len() as u64 {
                    push_v(vs, "C08", "C08.offset", format!("Data reports end offset {}, running total {}", off, rebuilt.len()));
                }
                log.u64(off);
                if c.hold && held.len() < 64 {
                    held.push((slice.clone(), s.to_vec()));
                }
            }
        }
        if rebuilt.len() > stream.len() || rebuilt[..] != stream[..rebuilt.len()] {
            push_v(vs, "C08", "C08.tiling", format!("chunks do not concatenate to the input (first {} bytes, block size {})", rebuilt.len(), c.block));
            break;
        }
        if !vs.is_empty() {
            break;
        }
    }
    // Chunks kept by the caller stay intact whatever happened later.
    drop(chunker);
    if c.hold {
        drop(arena);
        drop(spare);
    }
    for (i, (slice, want)) in held.iter().enumerate() {
        let s = slice.slice();
        if !s.is_empty() && owning_iovec::verif::locate(s.as_ptr(), s.len()).is_none() {
            push_v(vs, "C05", "C05.chunk_dangling", format!("held Data chunk {} is no longer in a live arena chunk", i));
        } else if s != &want[..] {
            push_v(vs, "C05", "C05.held_content", format!("held Data chunk {} changed after later pumps", i));
        }
    }
    if sentinels > 0 {
        stats.bump("probe.sentinel_reported");
    }
    fault_stats(&reader, stats);
    let mut sig = LogHash::new();
    sig.u64(c.block.min(70) as u64);
    sig.u64(sentinels.min(5));
    sig.u64((stream.len() as u64).min(40));
    stats.state(sig.0);
}

/// C06: read every record and compare with the reference reader.
fn run_reader(stream: &[u8], c: &Cfg, vs: &mut Vec<V>, stats: &mut Stats, log: &mut LogHash) {
    let tok = refcodec::tokenise(stream);
    let limit = c.limit.unwrap_or(u64::MAX);
    // Expected: valid, unskipped segments that start before the limit.
    let mut expected: Vec<&refcodec::Segment> = Vec::new();
    for seg in &tok.segments {
        if seg.start >= limit {
            break;
        }
        let Some(decoded) = &seg.decoded else { continue };
        let skipped = if c.custom_judge { skip_pred(seg.start, c.judge_seed) } else { decoded.len() > c.max_record };
        if skipped {
            stats.bump("probe.record_skipped_by_judge");
            continue;
        }
        expected.push(seg);
    }
    if tok.segments.iter().any(|s| s.decoded.is_none()) {
        stats.bump("probe.invalid_segment_in_log");
    }
    let stops_early = tok.segments.iter().any(|s| s.start >= limit) || tok.delimiters.iter().any(|d| d + 2 >= limit);

    let standard_inner = StreamReader::chunk_judge(c.max_record, c.limit);
    let judge_seed = c.judge_seed;
    // What the judge is shown must be live memory too.
    let dangling = std::cell::Cell::new(false);
    let look = |iov: &ConsumingIovec<'_>| {
        // First slice and the most recent ones (a full scan on every call
        // would be quadratic in the record size).
        let sp = iov.stable_prefix();
        let n = sp.len();
        for s in sp.iter().take(1).chain(sp.iter().skip(n.saturating_sub(2).max(1))) {
            if owning_iovec::verif::locate(s.as_ptr(), s.len()).is_none() && pool_locate(s.as_ptr(), s.len()).is_none() {
                dangling.set(true);
            }
        }
    };
    let standard = |range: Range<u64>, iov: ConsumingIovec<'_>| -> StreamAction {
        look(&iov);
        standard_inner(range, iov)
    };
    let custom = |range: Range<u64>, iov: ConsumingIovec<'_>| -> StreamAction {
        look(&iov);
        if range.is_empty() {
            if range.start >= limit { StreamAction::Stop } else { StreamAction::KeepGoing }
        } else if range.start >= limit {
            StreamAction::Stop
        } else if skip_pred(range.start, judge_seed) {
            StreamAction::SkipRecord
        } else {
            StreamAction::KeepGoing
        }
    };

    let mut sr = StreamReader::new();
    let mut reader = FaultyStream::new(stream, c.read_seed);
    let mut held: Vec<(OwningIovec<'static>, Vec<u8>)> = Vec::new();
    let mut got = 0usize;
    let mut calls = 0usize;
    loop {
        calls += 1;
        if c.clone_at != 0 && calls == c.clone_at {
            let copy = sr.clone();
            sr = copy;
            stats.bump("probe.continued_with_a_clone");
        }
        let res = if c.custom_judge {
            sr.next_record_bytes(&mut reader, &custom, c.block_opt)
        } else {
            sr.next_record_bytes(&mut reader, &standard, c.block_opt)
        };
        stats.ops_executed += 1;
        let item = match res {
            Ok(item) => item,
            Err(e) => {
                push_v(vs, "C06", "C06.io_error", format!("next_record_bytes failed although the reader only injects EINTR and short reads: {}", e));
                break;
            }
        };
        let Some((iov, range)) = item else {
            if got != expected.len() {
                let missing = expected[got];
                push_v(vs, "C06", "C06.missing_record", format!("end of stream after {} of {} expected records; next expected at {}..{} ({} bytes decoded), block size {:?}", got, expected.len(), missing.start, missing.end, missing.decoded.as_ref().unwrap().len(), c.block_opt));
            } else if !stops_early {
                let want = tok.delimiters.last().copied().unwrap_or(0);
                if sr.last_sentinel_offset() != want {
                    push_v(vs, "C06", "C06.last_sentinel", format!("at end of stream last_sentinel_offset is {}, last delimiter starts at {}", sr.last_sentinel_offset(), want));
                }
            }
            break;
        };
        let bytes = match iov.flatten() {
            Ok(b) => b,
            Err(b) => {
                push_v(vs, "C06", "C06.pending", "returned record has a pending placeholder".into());
                b
            }
        };
        for s in iov.stable_prefix() {
            if owning_iovec::verif::locate(s.as_ptr(), s.len()).is_none() && pool_locate(s.as_ptr(), s.len()).is_none() {
                push_v(vs, "C05", "C05.record_dangling", "a slice of the returned record is not inside a live arena chunk".into());
            }
        }
        // The caller may keep a record across later calls.
        let taken = if c.hold && held.len() < 32 { Some(iov.take()) } else { None };
        log.u64(range.start);
        log.u64(range.end);
        log.bytes(&bytes);
        if got >= expected.len() {
            push_v(vs, "C06", "C06.extra_record", format!("unexpected record {}..{} ({} bytes) after the {} expected ones", range.start, range.end, bytes.len(), expected.len()));
            break;
        }
        let want = expected[got];
        if range.start != want.start || range.end != want.end {
            push_v(vs, "C06", "C06.range", format!("record {} has range {}..{}, reference {}..{} (block size {:?})", got, range.start, range.end, want.start, want.end, c.block_opt));
            break;
        }
        if &bytes != want.decoded.as_ref().unwrap() {
            push_v(vs, "C06", "C06.content", format!("record {} at {}..{} decoded to {} bytes, reference {} bytes or different content", got, range.start, range.end, bytes.len(), want.decoded.as_ref().unwrap().len()));
            break;
        }
        // The delimiter that ended this record (or the last one before it).
        let want_sentinel = if tok.delimiters.binary_search(&want.end).is_ok() {
            want.end
        } else {
            tok.delimiters.iter().rev().find(|d| **d < want.start).copied().unwrap_or(0)
        };
        if sr.last_sentinel_offset() != want_sentinel {
            push_v(vs, "C06", "C06.last_sentinel", format!("after record {} last_sentinel_offset is {}, reference {}", got, sr.last_sentinel_offset(), want_sentinel));
        }
        got += 1;
        if let Some(taken) = taken {
            held.push((taken, bytes));
        }
    }
    if got > 0 {
        stats.bump("probe.records_returned");
    }
    if dangling.get() {
        push_v(vs, "C05", "C05.judge_dangling", "the record judge was shown a slice that is not inside a live arena chunk".into());
    }
    if c.hold {
        drop(sr);
    }
    for (i, (iov, want)) in held.iter().enumerate() {
        for s in iov.stable_prefix() {
            if owning_iovec::verif::locate(s.as_ptr(), s.len()).is_none() && pool_locate(s.as_ptr(), s.len()).is_none() {
                push_v(vs, "C05", "C05.record_dangling", format!("held record {} points outside live arena chunks", i));
            }
        }
        if &iov.flatten().unwrap_or_else(|v| v) != want {
            push_v(vs, "C05", "C05.held_content", format!("held record {} changed after later reads", i));
        }
    }
    fault_stats(&reader, stats);
    let mut sig = LogHash::new();
    sig.u64(c.block.min(70) as u64);
    sig.u64(got.min(6) as u64);
    sig.u64(tok.segments.len().min(8) as u64);
    sig.u64(c.custom_judge as u64);
    sig.u64(c.limit.is_some() as u64);
    stats.state(sig.0);
}

impl World for StreamWorld {
    fn name(&self) -> &'static str {
        "stream"
    }
    fn kinds(&self) -> &'static [&'static str] {
        KINDS
    }
    fn serves(&self) -> &'static [&'static str] {
        &["C05", "C06", "C08", "C10"]
    }
    fn runs(&self, ask: Ask) -> u64 {
        if ask.thorough {
            20_000_000
        } else {
            400_000
        }
    }
    fn components(&self) -> (Vec<&'static str>, Vec<&'static str>) {
        (
            vec!["hcobs (StreamChunker, StreamReader, Decoder)", "owning_iovec (ByteArena::read_n, AnchoredSlice, OwningIovec)"],
            vec!["the log's writer (reference encoder; the real Encoder for a quarter of the records)", "the disk (byte vector with injected torn writes, overwrites, garbage, duplicated spans)", "std::io::Read (FaultyStream: short reads and EINTR)"],
        )
    }
    fn rule(&self) -> &'static str {
        "one run = one log (records, delimiters, torn records, garbage, then disk faults) x reader configuration (block size incl. 0 and 1, judge, limits, read-size/EINTR schedule, arena state, whether results are held); in sweep runs the same log is re-read truncated at every byte; non-trivial = the log has at least 2 segments or 1 segment and a fault; distinct = distinct (mode, block size class, operation-kind sequence)"
    }
    fn generate(&self, seed: u64, index: u64, ask: Ask) -> Plan {
        let mut rng = Rng::new(crate::prng::mix(&[seed, 0x57e4, index]));
        let mut knobs = std::collections::BTreeMap::new();
        let chunker = match ask.prop {
            "C08" => rng.chance(9, 10),
            "C06" => rng.chance(1, 10),
            _ => rng.chance(1, 2),
        };
        knobs.insert("chunker".into(), chunker as u64);
        knobs.insert("block".into(), rng.below(if ask.tiny { 9 } else { BLOCKS.len() as u64 }));
        knobs.insert("read_seed".into(), if rng.chance(1, 4) { 0 } else { rng.next() >> 1 });
        knobs.insert("hold".into(), rng.chance(1, 3) as u64);
        if rng.chance(1, 6) {
            knobs.insert("clone_at".into(), rng.range(1, 6));
        }
        knobs.insert("arena_prep".into(), if rng.chance(1, 2) { 0 } else { rng.below(64) });
        if !chunker {
            if rng.chance(1, 3) {
                knobs.insert("max_record".into(), 1 + rng.boundary_size(&[0, 1, 4, 252, 253], 400));
            }
            if rng.chance(1, 4) {
                knobs.insert("limit".into(), 1 + rng.below(300));
            }
            if rng.chance(1, 5) {
                knobs.insert("custom_judge".into(), 1);
                knobs.insert("judge_seed".into(), rng.next() >> 1);
            }
        }
        if !ask.tiny && rng.chance(1, if ask.thorough { 6 } else { 12 }) {
            knobs.insert("sweep".into(), 1);
        }
        let mut ops = Vec::new();
        let nrec = rng.range(0, if ask.tiny { 3 } else { 7 });
        // Aimed logs: records placed so that a chunk (or its header) ends exactly
        // on an I/O block boundary of a reader that starts from a fresh arena.
        let aimed = !ask.tiny && rng.chance(1, 6);
        let aim = rng.below(ALIGN_BLOCKS.len() as u64);
        if aimed {
            knobs.insert("block".into(), ALIGN_BLOCKS[aim as usize].0);
            knobs.insert("arena_prep".into(), if rng.chance(3, 4) { 0 } else { rng.below(64) });
        }
        let small = !aimed && (ask.tiny || rng.chance(3, 4));
        let class = if aimed { *rng.pick(&[0u64, 4, 3]) } else { *rng.pick(&[0u64, 0, 1, 2, 3]) };
        let (roff, rlen) = region(class);
        if rng.chance(1, 3) {
            ops.push(Op::new("delim", [rng.range(1, 3), 0, 0, 0]));
        }
        for _ in 0..nrec {
            let r = rng.below(10);
            let len = if small { rng.boundary_size(&[0, 1, 2, 3], 12) } else { rng.boundary_size(&[0, 1, 251, 252, 253, 300], 600) };
            let len = if !ask.tiny && rng.chance(1, 40) { rng.range(64_000, 66_000) } else { len };
            let off = roff as u64 + rng.below((rlen as u64).saturating_sub(70_000).max(1));
            if aimed && rng.chance(1, 2) {
                ops.push(Op::new("align", [aim, rng.below(ALIGN_BACK.len() as u64), 0, 0]));
            }
            if r < 6 {
                ops.push(Op::new("rec", [len, off, rng.below(4), 0]));
            } else if r < 8 {
                ops.push(Op::new("torn", [len.max(1), off, rng.below(4), rng.next() >> 1]));
            } else {
                ops.push(Op::new("garbage", [rng.below(4), if small { rng.range(0, 8) } else { rng.range(0, 299) }, rng.next() >> 1, 0]));
            }
            // A crashed-and-restarted writer starts with a delimiter; a missing one merges segments.
            if rng.chance(9, 10) {
                ops.push(Op::new("delim", [*rng.pick(&[1u64, 1, 1, 2, 3]), 0, 0, 0]));
            }
        }
        for _ in 0..*rng.pick(&[0u64, 0, 0, 1, 1, 2, 4]) {
            let k = *rng.pick(&["flip", "dup", "trunc", "ins", "del"]);
            ops.push(Op::new(k, [rng.next() >> 1, rng.below(256), rng.below(8), 0]));
        }
        Plan { world: "stream", mode: if chunker { "chunker".into() } else { "reader".into() }, seed, index, knobs, ops }
    }
    fn execute(&self, plan: &Plan, stats: &mut Stats) -> Outcome {
        let mut log = LogHash::new();
        // Calibrate before anything of this run is numbered or counted.
        let _ = crate::w_codec::arena_large_granule();
        let base = (ByteArena::num_live_chunks(), ByteArena::num_live_bytes(), owning_iovec::verif::live_totals());
        let mut vs: Vec<V> = Vec::new();
        let c = cfg(plan);
        let chunker = plan.knob("chunker") != 0;
        let mut nontrivial = false;
        let result = std::panic::catch_unwind(AssertUnwindSafe(|| {
            let stream = build_log(plan, stats);
            let tok = refcodec::tokenise(&stream);
            nontrivial = tok.segments.len() >= 2 || (tok.segments.len() == 1 && plan.ops.iter().any(|o| !matches!(o.k, "rec" | "delim")));
            log.bytes(&stream);
            let one = |s: &[u8], vs: &mut Vec<V>, stats: &mut Stats, log: &mut LogHash| {
                if chunker {
                    run_chunker(s, &c, vs, stats, log)
                } else {
                    run_reader(s, &c, vs, stats, log)
                }
            };
            one(&stream, &mut vs, stats, &mut log);
            if plan.knob("sweep") != 0 && stream.len() <= 600 {
                // Crash-point enumeration: the log as it would be after a crash at every byte.
                for t in 0..stream.len() {
                    one(&stream[..t], &mut vs, stats, &mut log);
                    if !vs.is_empty() {
                        break;
                    }
                }
                stats.add("fault.truncated_at_every_byte", stream.len() as u64);
                // And the whole log again with every block size.
                for b in 0..BLOCKS.len() - 1 {
                    let mut c2 = cfg(plan);
                    c2.block = BLOCKS[b] as usize;
                    c2.block_opt = Some(BLOCKS[b] as usize);
                    if vs.is_empty() {
                        if chunker {
                            run_chunker(&stream, &c2, &mut vs, stats, &mut log)
                        } else {
                            run_reader(&stream, &c2, &mut vs, stats, &mut log)
                        }
                    }
                }
                stats.bump("probe.every_block_size_on_one_log");
            }
        }));
        let mut violations: Vec<Violation> = vs
            .into_iter()
            .map(|v| Violation { prop: v.prop, inv: v.inv.to_string(), detail: v.detail, at_op: v.at, key: String::new() })
            .collect();
        if let Err(e) = result {
            let msg = panic_message(&e);
            if msg.starts_with("harness:") {
                eprintln!("HARNESS ERROR: {}", msg);
                std::process::exit(2);
            }
            let loc = crate::driver::last_panic_location(&msg);
            let p = if msg.contains("verif: new arena chunk overlaps") { "C05" } else if chunker { "C08" } else { "C06" };
            violations.push(Violation { prop: p, inv: format!("{}.panic", p), detail: format!("panic while reading the log: {}", loc), at_op: usize::MAX, key: String::new() });
        } else {
            let now = (ByteArena::num_live_chunks(), ByteArena::num_live_bytes(), owning_iovec::verif::live_totals());
            if now != base {
                violations.push(Violation { prop: "C10", inv: "C10.leak_after_drop".into(), detail: format!("after dropping reader, chunker, arenas and held results: {:?}, baseline {:?}", now, base), at_op: usize::MAX, key: String::new() });
            }
        }
        log.u64(violations.len() as u64);
        Outcome { violations, log_hash: log.0, nontrivial }
    }
}


/// Long log through `StreamReader`: many records (per-run size class, incl.
/// empty and rejected ones) read with one reader object alive; after every
/// record the live arena bytes must stay below a bound that does not depend
/// on how much has been read.  Serves C10 (and re-checks C06 at scale).
pub fn long_log(plan: &Plan, stats: &mut Stats, log: &mut LogHash, vs: &mut Vec<V>, base_bytes: usize, calls: &mut u64) {
    let total = (plan.knob("keep_total_mib").max(1) as usize) << 20;
    let class = plan.knob("record_class");
    let block = plan.knob("block") as usize;
    let block_opt = if block == 0 { None } else { Some(block) };
    let mut rng = Rng::new(plan.knob("sched_seed") ^ 0x106);
    // Writer: the reference encoder, one delimiter after each record.
    let mut stream: Vec<u8> = Vec::with_capacity(total + 70_000);
    let mut nrec = 0u64;
    while stream.len() < total {
        let len = match class {
            0 => 0,
            1 => rng.below(4),
            2 => rng.below(300),
            3 => if rng.chance(1, 50) { rng.range(60_000, 70_000) } else { rng.below(2_000) },
            4 => if rng.chance(1, 2) { 0 } else { rng.below(40) },
            6 => if rng.chance(1, 4) { rng.range(1 << 20, 6 << 20) } else { rng.below(900) },
            _ => rng.below(70_000),
        };
        let len = len.min((crate::simio::POOL_SIZE - 1) as u64);
        if class == 4 && rng.chance(1, 3) {
            // A record rejected at its first byte.
            stream.push(0xFF);
            stream.extend_from_slice(pool_slice(rng.below(1 << 19), rng.below(6)));
        } else {
            let payload = pool_slice(rng.below((crate::simio::POOL_SIZE as u64).saturating_sub(len).max(1)), len);
            stream.extend_from_slice(&refcodec::encode(payload, refcodec::PROD_M1, refcodec::PROD_M2));
        }
        stream.extend_from_slice(&[0xFE, 0xFD]);
        nrec += 1;
    }
    let max_record = if class == 6 { 1_000 } else { usize::MAX };
    let tok = refcodec::tokenise(&stream);
    let expected: Vec<&refcodec::Segment> = tok.segments.iter().filter(|s| s.decoded.as_ref().map(|d| d.len() <= max_record).unwrap_or(false)).collect();
    // Records above the size limit are skipped; the footprint is sampled every
    // time the judge is consulted, i.e. also in the middle of a skipped record.
    let inner_judge = StreamReader::chunk_judge(max_record, None);
    let peak_in_call = std::cell::Cell::new(0usize);
    let judge = |range: std::ops::Range<u64>, iov: ConsumingIovec<'_>| -> StreamAction {
        peak_in_call.set(peak_in_call.get().max(ByteArena::num_live_bytes().saturating_sub(base_bytes)));
        inner_judge(range, iov)
    };
    let mut sr = StreamReader::new();
    let mut reader = FaultyStream::new(&stream, if plan.knob("eintr") != 0 { plan.knob("sched_seed") | 1 } else { 0 });
    let bound = crate::w_codec::footprint_bound(block_opt.unwrap_or(hcobs::DEFAULT_BLOCK_SIZE).max(70_000), 1);
    let mut got = 0usize;
    let mut max_live = 0usize;
    let mut content_ok = true;
    loop {
        let item = match sr.next_record_bytes(&mut reader, &judge, block_opt) {
            Ok(x) => x,
            Err(e) => {
                push_v(vs, "C06", "C06.io_error", format!("next_record_bytes failed on the long log: {}", e));
                break;
            }
        };
        *calls += 1;
        stats.ops_executed += 1;
        let Some((iov, range)) = item else { break };
        if got >= expected.len() {
            push_v(vs, "C06", "C06.extra_record", format!("unexpected record at {}..{} in the long log", range.start, range.end));
            break;
        }
        let want = expected[got];
        // (Keep reading after a mismatch: the footprint is judged on its own.)
        if content_ok {
            let bytes = iov.flatten().unwrap_or_else(|v| v);
            if range.start != want.start || range.end != want.end || &bytes != want.decoded.as_ref().unwrap() {
                push_v(vs, "C06", "C06.content", format!("record {} of the long log at {}..{} differs from the reference ({}..{})", got, range.start, range.end, want.start, want.end));
                content_ok = false;
            }
        }
        got += 1;
        let live = ByteArena::num_live_bytes().saturating_sub(base_bytes).max(peak_in_call.get());
        max_live = max_live.max(live);
        if live > bound {
            push_v(vs, "C10", "C10.reader_footprint", format!("after {} records ({} bytes of log): {} live arena bytes, bound {}", got, range.end, live, bound));
            break;
        }
    }
    if vs.is_empty() && content_ok && got != expected.len() {
        push_v(vs, "C06", "C06.missing_record", format!("long log: {} of {} records returned", got, expected.len()));
    }
    fault_stats(&reader, stats);
    log.u64(got as u64);
    log.u64(stream.len() as u64);
    stats.add("probe.long_log_bytes", stream.len() as u64);
    stats.add("probe.long_log_records", nrec);
    stats.counters.entry("probe.max_live_arena_bytes_reader".into()).and_modify(|v| *v = (*v).max(max_live as u64)).or_insert(max_live as u64);
    let mut sig = LogHash::new();
    for k in ["record_class", "block", "eintr", "keep_total_mib"] {
        sig.u64(plan.knob(k));
    }
    stats.state(sig.0);
}
