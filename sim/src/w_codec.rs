//! World P/codec: `Encoder` -> wire -> `Decoder`, fed and drained piecewise
//! by tasks whose interleaving the plan decides, against an independent
//! reference codec.
//!
//! Serves C01, C02, C07, C09 (and C05, C10, C17 through the same runs).
use std::io::Read;
use std::num::NonZeroUsize;
use std::panic::AssertUnwindSafe;

use hcobs::verif::RawDecoder;
use hcobs::verif::RawEncoder;
use owning_iovec::AnchoredSlice;
use owning_iovec::ByteArena;
use owning_iovec::ConsumingIovec;
use owning_iovec::OwningIovec;
use owning_iovec::ZeroCopySink;

use crate::plan::*;
use crate::prng::LogHash;
use crate::prng::Rng;
use crate::refcodec;
use crate::simio::*;
use crate::w_iovec::panic_message;

pub struct CodecWorld;

pub const KINDS: &[&str] = &[
    "feed", "lit", "pad_to", "edrain", "earena", "corrupt", "dfeed", "ddrain", "darena",
];

const LITS: &[&[u8]] = &[
    &[0xFE],
    &[0xFD],
    &[0xFE, 0xFD],
    &[0xFE, 0xFE, 0xFD],
    &[0xFD, 0xFE],
    &[0xFE, 0xFD, 0xFE, 0xFD],
    &[0xFE, 0xFE],
    &[0x00],
    &[0xFC, 0xFE],
    &[0xFF, 0xFD],
];

pub enum Enc<'a> {
    Pub(hcobs::Encoder<'a>),
    Raw(RawEncoder<'a>),
}

impl<'a> Enc<'a> {
    pub fn new(public: bool, iov: OwningIovec<'a>, m1: usize, m2: usize) -> Enc<'a> {
        if public {
            Enc::Pub(hcobs::Encoder::new_from_iovec(iov))
        } else {
            Enc::Raw(RawEncoder::new_from_iovec(iov, m1, m2))
        }
    }
    pub fn encode(&mut self, d: &'a [u8]) {
        match self {
            Enc::Pub(e) => e.encode(d),
            Enc::Raw(e) => e.encode(d),
        }
    }
    pub fn encode_copy(&mut self, d: &[u8]) {
        match self {
            Enc::Pub(e) => e.encode_copy(d),
            Enc::Raw(e) => e.encode_copy(d),
        }
    }
    pub fn encode_anchored(&mut self, d: AnchoredSlice) {
        match self {
            Enc::Pub(e) => e.encode_anchored(d),
            Enc::Raw(e) => e.encode_anchored(d),
        }
    }
    pub fn read_n(&mut self, r: impl Read, c: usize, a: NonZeroUsize) -> std::io::Result<AnchoredSlice> {
        match self {
            Enc::Pub(e) => e.read_n(r, c, a),
            Enc::Raw(e) => e.read_n(r, c, a),
        }
    }
    pub fn encode_read(&mut self, r: impl Read, c: usize, a: NonZeroUsize) -> std::io::Result<usize> {
        match self {
            Enc::Pub(e) => e.encode_read(r, c, a),
            Enc::Raw(e) => e.encode_read(r, c, a),
        }
    }
    pub fn consumer(&mut self) -> ConsumingIovec<'_> {
        match self {
            Enc::Pub(e) => e.consumer(),
            Enc::Raw(e) => e.consumer(),
        }
    }
    pub fn finish(self) -> OwningIovec<'a> {
        match self {
            Enc::Pub(e) => e.finish(),
            Enc::Raw(e) => e.finish(),
        }
    }
}

pub enum Dec<'a> {
    Pub(hcobs::Decoder<'a>),
    Raw(RawDecoder<'a>),
}

impl<'a> Dec<'a> {
    pub fn new(public: bool, iov: OwningIovec<'a>, m1: usize, m2: usize) -> Dec<'a> {
        if public {
            Dec::Pub(hcobs::Decoder::new_from_iovec(iov))
        } else {
            Dec::Raw(RawDecoder::new_from_iovec(iov, m1, m2))
        }
    }
    pub fn decode(&mut self, d: &'a [u8]) -> Result<(), hcobs::DecodingError> {
        match self {
            Dec::Pub(e) => e.decode(d),
            Dec::Raw(e) => e.decode(d),
        }
    }
    pub fn decode_copy(&mut self, d: &[u8]) -> Result<(), hcobs::DecodingError> {
        match self {
            Dec::Pub(e) => e.decode_copy(d),
            Dec::Raw(e) => e.decode_copy(d),
        }
    }
    pub fn decode_anchored(&mut self, d: AnchoredSlice) -> Result<(), hcobs::DecodingError> {
        match self {
            Dec::Pub(e) => e.decode_anchored(d),
            Dec::Raw(e) => e.decode_anchored(d),
        }
    }
    pub fn read_n(&mut self, r: impl Read, c: usize, a: NonZeroUsize) -> std::io::Result<AnchoredSlice> {
        match self {
            Dec::Pub(e) => e.read_n(r, c, a),
            Dec::Raw(e) => e.read_n(r, c, a),
        }
    }
    pub fn decode_read(&mut self, r: impl Read, c: usize, a: NonZeroUsize) -> std::io::Result<usize> {
        match self {
            Dec::Pub(e) => e.decode_read(r, c, a),
            Dec::Raw(e) => e.decode_read(r, c, a),
        }
    }
    pub fn consumer(&mut self) -> ConsumingIovec<'_> {
        match self {
            Dec::Pub(e) => e.consumer(),
            Dec::Raw(e) => e.consumer(),
        }
    }
    pub fn finish(self) -> Result<OwningIovec<'a>, hcobs::DecodingError> {
        match self {
            Dec::Pub(e) => e.finish(),
            Dec::Raw(e) => e.finish(),
        }
    }
}

pub struct V {
    pub prop: &'static str,
    pub inv: &'static str,
    pub detail: String,
    pub at: usize,
}

fn find_stuff(b: &[u8]) -> Option<usize> {
    (0..b.len().saturating_sub(1)).find(|&i| b[i] == 0xFE && b[i + 1] == 0xFD)
}

/// Checks that every stable slice of a consumer lies in live memory (pool,
/// one of `extra` caller buffers, or a live arena chunk) and is non-empty.
pub fn check_memory(c: &ConsumingIovec<'_>, extra: &[&[u8]], who: &str, log: &mut LogHash) -> Result<(), (&'static str, &'static str, String)> {
    for (i, s) in c.stable_prefix().iter().enumerate() {
        if s.is_empty() {
            return Err(("C03", "C03.empty_slice", format!("{} exposes an empty slice", who)));
        }
        let ptr = s.as_ptr();
        if pool_locate(ptr, s.len()).is_some() {
            continue;
        }
        if extra.iter().any(|b| {
            let base = b.as_ptr() as usize;
            (ptr as usize) >= base && (ptr as usize) + s.len() <= base + b.len()
        }) {
            continue;
        }
        match owning_iovec::verif::locate(ptr, s.len()) {
            Some((idx, off, _)) => {
                if i == 0 {
                    log.u64(norm_chunk(idx));
                    log.u64(off as u64);
                }
            }
            None => {
                return Err((
                    "C05",
                    "C05.dangling",
                    format!("{}: stable slice {} (len {}) is in neither a caller buffer nor a live chunk", who, i, s.len()),
                ))
            }
        }
    }
    Ok(())
}

/// Drains from a consumer into `sink`; returns a description of a return
/// value mismatch, if any.
pub fn drain(mut c: ConsumingIovec<'_>, kind: u64, n: usize, sink: &mut Vec<u8>, stats: &mut Stats) -> Result<usize, String> {
    let stable: usize = c.stable_prefix().iter().map(|s| s.len()).sum();
    let nslices = c.stable_prefix().len();
    match kind % 4 {
        0 => {
            let k = n.min(nslices);
            let before = sink.len();
            for s in &c.stable_prefix()[..k] {
                sink.extend_from_slice(s);
            }
            let got = c.consume(n);
            if got != k {
                return Err(format!("consume({}) returned {} with {} stable slices", n, got, nslices));
            }
            stats.bump("op.drain_consume");
            Ok(sink.len() - before)
        }
        1 => {
            let want = n.min(stable);
            let mut left = want;
            for s in c.stable_prefix() {
                if left == 0 {
                    break;
                }
                let t = left.min(s.len());
                sink.extend_from_slice(&s[..t]);
                left -= t;
            }
            let got = c.advance_slices(n);
            if got != want {
                return Err(format!("advance_slices({}) returned {} with {} stable bytes", n, got, stable));
            }
            if want > 0 && want < stable {
                stats.bump("probe.partial_byte_drain");
            }
            stats.bump("op.drain_advance");
            Ok(want)
        }
        2 => {
            let n = n.min(1 << 20);
            let mut buf = vec![0u8; n];
            let got = c.read(&mut buf).map_err(|e| format!("Read failed: {}", e))?;
            if got != n.min(stable) {
                return Err(format!("read({}) returned {} with {} stable bytes", n, got, stable));
            }
            sink.extend_from_slice(&buf[..got]);
            stats.bump("op.drain_read");
            Ok(got)
        }
        _ => {
            for s in c.stable_prefix() {
                sink.extend_from_slice(s);
            }
            let got = c.consume(usize::MAX);
            if got != nslices {
                return Err(format!("consume(MAX) returned {} with {} stable slices", got, nslices));
            }
            stats.bump("op.drain_all");
            Ok(stable)
        }
    }
}

fn arena_op(mut c: ConsumingIovec<'_>, kind: u64, n: usize, spare: &mut Option<ByteArena>, stats: &mut Stats) {
    match kind % 4 {
        0 => c.arena().flush_cache(),
        1 => c.arena().ensure_capacity(n % 140_000),
        2 => {
            let mine = spare.take().unwrap_or_default();
            *spare = Some(c.swap_arena(mine));
        }
        _ => *spare = Some(c.take_arena()),
    }
    stats.bump("op.arena_meddle");
}

/// The largest chunk the arena allocates on its own (without being asked for a
/// larger single allocation), measured on the code under test: "one arena
/// chunk" in C09's bound.  Calibrated once per process by forcing a fresh
/// arena through its size sequence one byte at a time.
pub fn arena_regular_chunk() -> usize {
    static SIZE: std::sync::OnceLock<usize> = std::sync::OnceLock::new();
    *SIZE.get_or_init(|| {
        let mut arena = ByteArena::new();
        let mut largest = 0usize;
        for _ in 0..64 {
            // Use up the current chunk, then ask for one more byte: the arena picks
            // the next size of its own sequence (it stops growing at its largest).
            let fill = arena.remaining();
            if fill > 0 {
                let zeros = vec![0u8; fill];
                // (Any number of attempts: an arena may bound individual reads.)
                let _ = arena.read_n(&zeros[..], fill, NonZeroUsize::MAX);
            }
            arena.ensure_capacity(1);
            let got = arena.remaining();
            if got <= largest {
                break;
            }
            largest = got;
        }
        largest.max(4096)
    })
}

/// Granularity of the chunks the arena under test creates for allocations
/// larger than its regular chunk, measured once per process (a fresh arena is
/// asked for one byte more than the regular chunk).
pub fn arena_large_granule() -> usize {
    static G: std::sync::OnceLock<usize> = std::sync::OnceLock::new();
    *G.get_or_init(|| {
        let regular = arena_regular_chunk();
        let mut arena = ByteArena::new();
        arena.ensure_capacity(regular + 1);
        arena.remaining().saturating_sub(regular).clamp(4096, regular)
    })
}

/// The largest chunk a run whose largest single allocation was
/// `largest_alloc` bytes can have made the arena create.
pub fn arena_chunk_bound(largest_alloc: usize) -> usize {
    let g = arena_large_granule();
    arena_regular_chunk().max(largest_alloc.div_ceil(g) * g)
}

pub fn lag_bound(largest_alloc: usize, m2: usize) -> usize {
    arena_chunk_bound(largest_alloc) + m2 + 2
}

struct Run<'p> {
    plan: &'p Plan,
    m1: usize,
    m2: usize,
    public: bool,
    hard: bool,
    vs: Vec<V>,
    stage: std::cell::Cell<&'static str>,
}

/// Applies feed number `i` of the plan to an encoder.  Returns the bytes that
/// became part of the plaintext.
fn apply_feed(
    enc: &mut Enc<'static>,
    op: &Op,
    plain_so_far: &[u8],
    m1: usize,
    m2: usize,
    hard: bool,
    replica: bool,
    largest_alloc: &mut usize,
    stats: &mut Stats,
    log: &mut LogHash,
    vs: &mut Vec<V>,
    at: usize,
    reader_arena: Option<&mut ByteArena>,
) -> Vec<u8> {
    let a = op.a;
    let (method, src): (u64, &'static [u8]) = match op.k {
        "feed" => (a[0], pool_slice(a[1], a[2])),
        "lit" => (a[0], LITS[(a[1] as usize) % LITS.len()]),
        "pad_to" => {
            // Fill the open chunk up to `limit - k` with delimiter-free bytes.
            let (fill, limit) = refcodec::open_chunk_fill(plain_so_far, m1, m2);
            let want = (limit - fill).saturating_sub((a[1] % 4) as usize);
            let (zoff, zlen) = region(4);
            (a[0], pool_slice(zoff as u64, want.min(zlen) as u64))
        }
        _ => unreachable!(),
    };
    let method = if replica && method % 6 >= 2 && method % 6 <= 3 { 1 } else { method % 6 };
    match method {
        0 => {
            enc.encode(src);
            stats.bump("op.encode_borrow");
            src.to_vec()
        }
        1 => {
            enc.encode_copy(src);
            stats.bump("op.encode_copy");
            src.to_vec()
        }
        2 | 3 => {
            let (script, tail_eof) = script_from(a[3], hard);
            let count = src.len();
            let attempts = attempts_from(a[3] >> 7);
            let mut reader = SimReader::new(src, script.clone(), tail_eof);
            *largest_alloc = (*largest_alloc).max(count);
            let att = NonZeroUsize::new(attempts).unwrap();
            let got: Result<usize, std::io::ErrorKind> = if method == 2 {
                // The reader may own its buffers (an arena that is not the encoder's).
                let read = match reader_arena {
                    Some(arena) if (a[3] >> 5) % 2 == 0 => arena.read_n(&mut reader, count, att),
                    _ => enc.read_n(&mut reader, count, att),
                };
                match read {
                    Ok(s) => {
                        let n = s.slice().len();
                        if s.slice() != &src[..n.min(src.len())] {
                            vs.push(V { prop: "C17", inv: "C17.bytes", detail: "Encoder::read_n returned bytes the reader did not deliver".into(), at });
                        }
                        // Slice it the way a caller may, then feed every part in order.
                        match (a[3] >> 3) % 3 {
                            0 => enc.encode_anchored(s),
                            1 => {
                                let (l, r) = s.split_at(n / 2);
                                enc.encode_anchored(l);
                                enc.encode_anchored(r);
                            }
                            _ => {
                                let mut front = s.clone();
                                let mut back = s;
                                let k = n / 3;
                                front.drop_suffix(n - k);
                                back.skip_prefix(k);
                                enc.encode_anchored(front);
                                enc.encode_anchored(back);
                            }
                        }
                        stats.bump("op.encode_anchored");
                        Ok(n)
                    }
                    Err(e) => Err(e.kind()),
                }
            } else {
                stats.bump("op.encode_read");
                enc.encode_read(&mut reader, count, att).map_err(|e| e.kind())
            };
            for (i, name) in ["short_read", "full_read", "eintr", "eof", "hard_error"].iter().enumerate() {
                if reader.fired[i] > 0 {
                    stats.add(&format!("fault.{}", name), reader.fired[i]);
                }
            }
            let want = ref_read_n_traced(src.len(), &script, tail_eof, count, attempts, &reader.offered);
            log.u64(reader.offered.len() as u64);
            if reader.offered != want.offered {
                vs.push(V { prop: "C17", inv: "C17.calls", detail: format!("encoder read: reader offered {:?}, reference {:?}", reader.offered, want.offered), at });
            }
            if got != want.result {
                vs.push(V { prop: "C17", inv: "C17.result", detail: format!("encoder read returned {:?}, reference {:?}", got, want.result), at });
            }
            match got {
                Ok(n) => src[..n.min(src.len())].to_vec(),
                Err(_) => {
                    stats.bump("probe.encode_read_failed_noop");
                    Vec::new()
                }
            }
        }
        4 => {
            let sink: &mut dyn ZeroCopySinkEnc = enc;
            sink.sink_borrow(src);
            stats.bump("op.sink_borrow");
            src.to_vec()
        }
        _ => {
            let sink: &mut dyn ZeroCopySinkEnc = enc;
            sink.sink_copy(src);
            stats.bump("op.sink_copy");
            src.to_vec()
        }
    }
}

/// The public encoder implements `ZeroCopySink`; the raw one goes through the
/// equivalent methods.
trait ZeroCopySinkEnc {
    fn sink_borrow(&mut self, b: &'static [u8]);
    fn sink_copy(&mut self, b: &[u8]);
}

impl ZeroCopySinkEnc for Enc<'static> {
    fn sink_borrow(&mut self, b: &'static [u8]) {
        match self {
            Enc::Pub(e) => ZeroCopySink::append_borrow(e, b),
            Enc::Raw(e) => e.encode(b),
        }
    }
    fn sink_copy(&mut self, b: &[u8]) {
        match self {
            Enc::Pub(e) => ZeroCopySink::append_copy(e, b),
            Enc::Raw(e) => e.encode_copy(b),
        }
    }
}

fn stable_bytes(c: &ConsumingIovec<'_>) -> usize {
    c.stable_prefix().iter().map(|s| s.len()).sum()
}

impl Run<'_> {
    fn push(&mut self, prop: &'static str, inv: &'static str, detail: String, at: usize) {
        if !self.vs.iter().any(|v| v.inv == inv) {
            self.vs.push(V { prop, inv, detail, at });
        }
    }

    /// Encodes the plan's feeds with no drains and no arena operations.
    /// Encodes the plan's feeds again with every reader-driven feed replaced
    /// by a copy of what the reader delivered.  With `keep_schedule` the drain
    /// and arena operations are replayed too; without it they are left out.
    fn replica_wire(&self, keep_schedule: bool) -> Vec<u8> {
        let mut enc = Enc::new(self.public, OwningIovec::new(), self.m1, self.m2);
        let mut plain = Vec::new();
        let mut wire = Vec::new();
        let mut spare: Option<ByteArena> = None;
        let mut scratch_log = LogHash::new();
        let mut scratch_vs = Vec::new();
        let mut la = 0;
        let mut scratch_stats = Stats::default();
        for (i, op) in self.plan.ops.iter().enumerate() {
            match op.k {
                "feed" | "lit" | "pad_to" => {
                    // Reader-driven feeds are replaced by a copy of what they delivered.
                    let bytes = if matches!(op.k, "feed") && (op.a[0] % 6 == 2 || op.a[0] % 6 == 3) {
                        let src = pool_slice(op.a[1], op.a[2]);
                        let (script, tail_eof) = script_from(op.a[3], self.hard);
                        let want = ref_read_n(src.len(), &script, tail_eof, src.len(), attempts_from(op.a[3] >> 7));
                        let n = want.result.unwrap_or(0);
                        enc.encode_copy(&src[..n]);
                        src[..n].to_vec()
                    } else {
                        apply_feed(&mut enc, op, &plain, self.m1, self.m2, self.hard, true, &mut la, &mut scratch_stats, &mut scratch_log, &mut scratch_vs, i, None)
                    };
                    plain.extend_from_slice(&bytes);
                }
                "edrain" if keep_schedule => {
                    let _ = drain(enc.consumer(), op.a[0], op.a[1] as usize, &mut wire, &mut scratch_stats);
                }
                "earena" if keep_schedule => arena_op(enc.consumer(), op.a[0], op.a[1] as usize, &mut spare, &mut scratch_stats),
                _ => {}
            }
        }
        wire.extend_from_slice(&enc.finish().flatten().unwrap_or_else(|v| v));
        wire
    }

    fn execute(&mut self, stats: &mut Stats, log: &mut LogHash) {
        let plan = self.plan;
        let (m1, m2) = (self.m1, self.m2);
        let prefix_len = plan.knob("prefix_len") as usize;
        let prefix: &'static [u8] = pool_slice(777, prefix_len as u64);
        let mut iov = OwningIovec::new();
        if plan.knob("prefix_copy") != 0 {
            iov.push_copy(prefix);
        } else {
            iov.push_borrowed(prefix);
        }
        let mut enc = Enc::new(self.public, iov, m1, m2);
        let mut spare: Option<ByteArena> = None;
        let mut reader_arena = ByteArena::new();
        let mut plain: Vec<u8> = Vec::new();
        let mut wire: Vec<u8> = Vec::new();
        let mut largest_alloc = 0usize;
        let mut drained_before_finish = false;
        let mut max_lag = 0usize;

        // ---- stage 1: encode -------------------------------------------
        for (i, op) in plan.ops.iter().enumerate() {
            self.stage.set(match op.k {
                "edrain" => "drain",
                _ => "encode",
            });
            match op.k {
                "feed" | "lit" | "pad_to" => {
                    let mut vs = Vec::new();
                    let bytes = apply_feed(&mut enc, op, &plain, m1, m2, self.hard, false, &mut largest_alloc, stats, log, &mut vs, i, Some(&mut reader_arena));
                    for v in vs {
                        self.push(v.prop, v.inv, v.detail, v.at);
                    }
                    plain.extend_from_slice(&bytes);
                    log.u64(bytes.len() as u64);
                }
                "edrain" => {
                    match drain(enc.consumer(), op.a[0], op.a[1] as usize, &mut wire, stats) {
                        Ok(n) => {
                            if n > 0 {
                                drained_before_finish = true;
                            }
                            log.u64(n as u64);
                        }
                        Err(d) => self.push("C09", "C09.drain_ret", format!("encoder: {}", d), i),
                    }
                }
                "earena" => {
                    arena_op(enc.consumer(), op.a[0], op.a[1] as usize, &mut spare, stats);
                    reader_arena.flush_cache();
                }
                _ => continue,
            }
            stats.ops_executed += 1;
            let c = enc.consumer();
            let lag = c.total_size() - stable_bytes(&c);
            max_lag = max_lag.max(lag);
            if lag > lag_bound(largest_alloc, m2) + prefix_len {
                self.push("C09", "C09.encoder_lag", format!("encoder holds {} unconsumable bytes, bound {}", lag, lag_bound(largest_alloc, m2)), i);
            }
            if let Err((p, inv, d)) = check_memory(&c, &[], "encoder", log) {
                if p == "C05" {
                    // What the consumer offers is not a prefix of anything if it is not there any more.
                    self.push("C09", "C09.consumer_exposes_released_memory", d.clone(), i);
                }
                self.push(p, inv, d, i);
            }
            let mut sig = LogHash::new();
            sig.u64(c.len().min(6) as u64);
            sig.u64(c.stable_prefix().len().min(6) as u64);
            if m2 < 100 {
                let (fill, limit) = refcodec::open_chunk_fill(&plain, m1, m2);
                sig.u64(fill.min(12) as u64);
                sig.u64((limit - fill).min(3) as u64);
                sig.u64(m1 as u64 * 16 + m2 as u64);
            } else {
                sig.u64(64 - (plain.len() as u64).leading_zeros() as u64);
            }
            sig.u64(plain.last().map(|b| (*b == 0xFE) as u64 + 2 * (*b == 0xFD) as u64).unwrap_or(9));
            stats.state(sig.0);
        }
        self.stage.set("encode");
        let fin = enc.finish();
        match fin.flatten() {
            Ok(rest) => wire.extend_from_slice(&rest),
            Err(rest) => {
                wire.extend_from_slice(&rest);
                self.push("C01", "C01.finish_pending", "Encoder::finish left a placeholder pending".into(), usize::MAX);
            }
        }
        if fin.total_size() + wire.len() < prefix_len {
            self.push("C09", "C09.lost", "bytes lost".into(), usize::MAX);
        }
        drop(fin);
        log.bytes(&wire);

        // ---- compare with the reference encoder ------------------------
        let ref_wire = refcodec::encode(&plain, m1, m2);
        let body: &[u8] = if wire.len() >= prefix_len && &wire[..prefix_len] == prefix {
            &wire[prefix_len..]
        } else {
            self.push("C09", "C09.prefix_lost", "pre-existing iovec contents are not at the head of the output".into(), usize::MAX);
            &wire[..]
        };
        let canonical = body == &ref_wire[..];
        if !canonical {
            // Which claim broke?  One-shot copy of the whole plaintext, then
            // the same feeds without any drain or arena operation.
            let mut one = Enc::new(self.public, OwningIovec::new(), m1, m2);
            one.encode_copy(&plain);
            let oneshot = one.finish().flatten().unwrap_or_else(|v| v);
            let first_diff = body.iter().zip(ref_wire.iter()).position(|(a, b)| a != b).unwrap_or(body.len().min(ref_wire.len()));
            let detail = format!("output ({} bytes) differs from the reference encoding ({} bytes) at offset {}", body.len(), ref_wire.len(), first_diff);
            if oneshot != ref_wire {
                self.push("C07", "C07.encoder_canonical", detail.clone(), usize::MAX);
                self.push("C02", "C02.not_function_of_input", format!("{} (and the one-shot encoding differs too)", detail), usize::MAX);
            } else {
                let uses_reads = plan.ops.iter().any(|o| matches!(o.k, "feed" | "lit" | "pad_to") && matches!(o.a[0] % 6, 2 | 3));
                if uses_reads && self.replica_wire(true) == ref_wire {
                    // Same feeds, drains and arena operations, but the bytes that came
                    // through read_n / encode_read are copied in instead: correct.
                    self.push("C17", "C17.output_after_read", format!("{}; with the reader-driven feeds replaced by copies of what the readers delivered the output is correct", detail), usize::MAX);
                    // ... which also means the bytes depend on the input method that carried a piece.
                    self.push("C02", "C02.method_dependent", format!("{}; the same bytes fed by copy instead of through read_n/encode_read encode correctly", detail), usize::MAX);
                } else if self.replica_wire(false) == ref_wire {
                    self.push("C09", "C09.drain_changed_output", format!("{}; the same feeds without drains/arena operations encode correctly", detail), usize::MAX);
                } else {
                    self.push("C02", "C02.split_dependent", format!("{}; a one-shot encoding of the same bytes is correct", detail), usize::MAX);
                }
                self.push("C07", "C07.encoder_canonical", detail, usize::MAX);
            }
        }
        if let Some(p) = find_stuff(body) {
            self.push("C02", "C02.stuff_in_output", format!("FE FD at offset {} of the encoder output", p), usize::MAX);
        }
        if self.public || (m1 == refcodec::PROD_M1 && m2 == refcodec::PROD_M2) {
            let bound = plain.len() + 1 + 2 * plain.len().div_ceil(64008);
            if body.len() > bound {
                self.push("C02", "C02.length_bound", format!("{} input bytes encoded to {} > {}", plain.len(), body.len(), bound), usize::MAX);
            }
        }
        if plain.len() > m1 {
            stats.bump("probe.multi_chunk_message");
        }
        if drained_before_finish {
            stats.bump("probe.drained_while_in_flight");
        }

        // ---- stage 2: decode -------------------------------------------
        let mut wire2: Vec<u8> = body.to_vec();
        let mut corrupted = false;
        match plan.knob("wire_mode") {
            1 => {
                let (off, len) = region(plan.knob("wire_region"));
                wire2 = pool_slice(off as u64 + plan.knob("wire_off") % (len as u64 / 2), plan.knob("wire_len")).to_vec();
                corrupted = true;
            }
            3 => {
                wire2 = structured_wire(plan.knob("wire_off"), m1, m2);
                corrupted = true;
                stats.bump("fault.wire_structured_garbage");
            }
            2 => {
                let mut w = body.to_vec();
                w.extend_from_slice(pool_slice(plan.knob("wire_off"), plan.knob("wire_len")));
                wire2 = w;
                corrupted = plan.knob("wire_len") > 0;
            }
            _ => {}
        }
        for op in plan.ops.iter().filter(|o| o.k == "corrupt") {
            corrupted = true;
            stats.bump(&format!("fault.wire_corrupt_{}", op.a[0] % 6));
            let pos = if wire2.is_empty() { 0 } else { (op.a[1] as usize) % wire2.len() };
            match op.a[0] % 6 {
                0 => wire2.truncate(pos),
                1 if !wire2.is_empty() => wire2[pos] = [0xFD, 0xFE, 0xFF, op.a[2] as u8][(op.a[2] % 4) as usize],
                2 if !wire2.is_empty() => wire2[pos] = wire2[pos].wrapping_add(1),
                3 => wire2.extend_from_slice(pool_slice(op.a[1], op.a[2] % 9)),
                4 if !wire2.is_empty() => {
                    wire2.remove(pos);
                }
                5 => wire2.insert(pos, op.a[2] as u8),
                _ => {}
            }
        }
        let expected = refcodec::decode(&wire2, m1, m2);
        self.stage.set(if corrupted { "decode-corrupted" } else { "decode" });
        self.decode_and_compare(&wire2, &expected, if corrupted { None } else { Some(&plain) }, true, stats, log);

        // Crash-point sweep: the same wire truncated at every length.
        if plan.knob("sweep") != 0 && wire2.len() <= 400 {
            self.stage.set("decode-corrupted");
            for t in 0..wire2.len() {
                let cut = &wire2[..t];
                let exp = refcodec::decode(cut, m1, m2);
                self.decode_and_compare(cut, &exp, None, false, stats, log);
                stats.bump("fault.wire_truncated_at_every_length");
            }
        }
        let _ = max_lag;
    }

    fn decode_and_compare(&mut self, wire: &[u8], expected: &Option<Vec<u8>>, plain: Option<&[u8]>, scheduled: bool, stats: &mut Stats, log: &mut LogHash) {
        let plan = self.plan;
        let (m1, m2) = (self.m1, self.m2);
        // The decoder may be given an iovec that already holds something:
        // decoded bytes are appended after it.
        let dec_prefix: &'static [u8] = pool_slice(4242, if scheduled { plan.knob("dec_prefix_len") } else { 0 });
        let mut start = OwningIovec::new();
        start.push_copy(dec_prefix);
        let mut dec = Dec::new(self.public, start, m1, m2);
        let mut spare: Option<ByteArena> = None;
        let mut out: Vec<u8> = Vec::new();
        let mut pos = 0usize;
        let mut rejected = false;
        let mut failed_reads = 0u32;
        let mut vs: Vec<V> = Vec::new();
        let tail_method = plan.knob("tail_method");
        let ops: Vec<(usize, &Op)> = if scheduled {
            plan.ops.iter().enumerate().filter(|(_, o)| matches!(o.k, "dfeed" | "ddrain" | "darena")).collect()
        } else {
            Vec::new()
        };
        let tail = Op::new("dfeed", [tail_method, usize::MAX as u64 >> 1, 0, 0]);
        let mut steps: Vec<(usize, &Op)> = ops;
        steps.push((usize::MAX, &tail));
        let steps_copy = steps.clone();
        for (i, op) in steps {
            if rejected {
                break;
            }
            let outer_stage = self.stage.get();
            if op.k == "ddrain" {
                self.stage.set("drain");
            }
            match op.k {
                "dfeed" => {
                    let len = (op.a[1] as usize).min(wire.len() - pos);
                    let piece = &wire[pos..pos + len];
                    match op.a[0] % 4 {
                        0 => {
                            rejected = dec.decode(piece).is_err();
                            pos += len;
                            stats.bump("op.decode_borrow");
                        }
                        1 => {
                            rejected = dec.decode_copy(piece).is_err();
                            pos += len;
                            stats.bump("op.decode_copy");
                        }
                        m => {
                            let (script, tail_eof) = script_from(op.a[2], self.hard);
                            let attempts = attempts_from(op.a[2] >> 7);
                            let mut reader = SimReader::new(piece, script.clone(), tail_eof);
                            let att = NonZeroUsize::new(attempts).unwrap();
                            let got: Result<usize, std::io::ErrorKind> = if m == 2 {
                                stats.bump("op.decode_anchored");
                                match dec.read_n(&mut reader, len, att) {
                                    Ok(s) => {
                                        let n = s.slice().len();
                                        if s.slice() != &piece[..n.min(piece.len())] {
                                            vs.push(V { prop: "C17", inv: "C17.bytes", detail: "Decoder::read_n returned bytes the reader did not deliver".into(), at: i });
                                        }
                                        if (op.a[2] >> 3) % 2 == 0 {
                                            rejected = dec.decode_anchored(s).is_err();
                                        } else {
                                            let (l, r) = s.split_at(n / 2);
                                            rejected = dec.decode_anchored(l).is_err();
                                            if !rejected {
                                                rejected = dec.decode_anchored(r).is_err();
                                            }
                                        }
                                        Ok(n)
                                    }
                                    Err(e) => Err(e.kind()),
                                }
                            } else {
                                stats.bump("op.decode_read");
                                match dec.decode_read(&mut reader, len, att) {
                                    Ok(n) => Ok(n),
                                    Err(e) => {
                                        if reader.pos > 0 {
                                            // Bytes were delivered: this is a decoding error.
                                            rejected = true;
                                            Ok(reader.pos)
                                        } else {
                                            Err(e.kind())
                                        }
                                    }
                                }
                            };
                            for (k, name) in ["short_read", "full_read", "eintr", "eof", "hard_error"].iter().enumerate() {
                                if reader.fired[k] > 0 {
                                    stats.add(&format!("fault.{}", name), reader.fired[k]);
                                }
                            }
                            let want = ref_read_n_traced(piece.len(), &script, tail_eof, len, attempts, &reader.offered);
                            if reader.offered != want.offered {
                                vs.push(V { prop: "C17", inv: "C17.calls", detail: format!("decoder read: reader offered {:?}, reference {:?}", reader.offered, want.offered), at: i });
                            }
                            if got != want.result {
                                vs.push(V { prop: "C17", inv: "C17.result", detail: format!("decoder read returned {:?}, reference {:?}", got, want.result), at: i });
                            }
                            if got.is_err() {
                                failed_reads += 1;
                                stats.bump("probe.decode_read_failed_midstream");
                            }
                            pos += reader.pos;
                        }
                    }
                }
                "ddrain" => {
                    if let Err(d) = drain(dec.consumer(), op.a[0], op.a[1] as usize, &mut out, stats) {
                        vs.push(V { prop: "C09", inv: "C09.drain_ret", detail: format!("decoder: {}", d), at: i });
                    }
                }
                "darena" => arena_op(dec.consumer(), op.a[0], op.a[1] as usize, &mut spare, stats),
                _ => {}
            }
            self.stage.set(outer_stage);
            if scheduled {
                stats.ops_executed += 1;
            }
            let c = dec.consumer();
            if c.total_size() != stable_bytes(&c) || c.has_pending_backrefs() {
                vs.push(V { prop: "C09", inv: "C09.decoder_lag", detail: format!("decoder output has {} bytes of which only {} are consumable", c.total_size(), stable_bytes(&c)), at: i });
            }
            if let Err((p, inv, d)) = check_memory(&c, &[wire], "decoder", log) {
                if p == "C05" {
                    vs.push(V { prop: "C09", inv: "C09.consumer_exposes_released_memory", detail: d.clone(), at: i });
                }
                vs.push(V { prop: p, inv, detail: d, at: i });
            }
        }
        if !rejected && pos < wire.len() {
            // A reader-driven last feed may legitimately come back short (the
            // property bounds what read_n asks for, it does not promise one
            // call takes everything): the caller hands over the rest.
            stats.bump("probe.decoder_tail_completed_by_copy");
            rejected = dec.decode_copy(&wire[pos..]).is_err();
        }
        let accepted = if rejected {
            // What the decoder emitted before the error stays readable through
            // its consumer; it must stay alive even once the arena lets go of
            // its current chunk.
            dec.consumer().arena().flush_cache();
            if let Some(sp) = spare.as_mut() {
                sp.flush_cache();
            }
            let c = dec.consumer();
            if let Err((p, inv, d)) = check_memory(&c, &[wire], "decoder after a decoding error", log) {
                if p == "C05" {
                    vs.push(V { prop: "C09", inv: "C09.consumer_exposes_released_memory", detail: d.clone(), at: usize::MAX });
                }
                vs.push(V { prop: p, inv, detail: d, at: usize::MAX });
            }
            let mut sink = Vec::new();
            let _ = drain(dec.consumer(), 3, 0, &mut sink, stats);
            stats.bump("probe.decoder_output_checked_after_error");
            drop(dec);
            false
        } else {
            match dec.finish() {
                Ok(iov) => {
                    match iov.flatten() {
                        Ok(rest) => out.extend_from_slice(&rest),
                        Err(_) => vs.push(V { prop: "C09", inv: "C09.decoder_lag", detail: "Decoder::finish returned an iovec with a pending placeholder".into(), at: usize::MAX }),
                    }
                    true
                }
                Err(_) => false,
            }
        };
        if accepted {
            // What was in the iovec before must come out first, untouched.
            if out.len() >= dec_prefix.len() && &out[..dec_prefix.len()] == dec_prefix {
                out.drain(..dec_prefix.len());
            } else {
                vs.push(V { prop: "C09", inv: "C09.prefix_lost", detail: "the decoder's pre-existing iovec contents are not at the head of its output".into(), at: usize::MAX });
            }
        }
        log.u64(accepted as u64);
        if accepted {
            log.bytes(&out);
        }
        let matches_expected = match (accepted, expected) {
            (true, Some(e)) => &out == e,
            (false, None) => true,
            _ => false,
        };
        let used_reads = steps_copy.iter().any(|(_, o)| o.k == "dfeed" && o.a[0] % 4 >= 2);
        if !matches_expected && (failed_reads > 0 || used_reads) {
            // Did the failed reads matter?  Same pieces in the same order, but the
            // reader-driven calls are replaced by copies of what the readers
            // delivered (nothing, for the failed ones).
            let mut d2 = Dec::new(self.public, OwningIovec::new(), m1, m2);
            let mut out2: Vec<u8> = Vec::new();
            let mut pos2 = 0usize;
            let mut rej2 = false;
            let mut scratch = Stats::default();
            for (_, op) in &steps_copy {
                if rej2 || op.k != "dfeed" {
                    if op.k == "ddrain" && !rej2 {
                        let _ = drain(d2.consumer(), op.a[0], op.a[1] as usize, &mut out2, &mut scratch);
                    }
                    continue;
                }
                let len = (op.a[1] as usize).min(wire.len() - pos2);
                let piece = &wire[pos2..pos2 + len];
                let n = if op.a[0] % 4 >= 2 {
                    let (script, tail_eof) = script_from(op.a[2], self.hard);
                    ref_read_n(piece.len(), &script, tail_eof, len, attempts_from(op.a[2] >> 7)).result.unwrap_or(0)
                } else {
                    len
                };
                rej2 = d2.decode_copy(&piece[..n]).is_err();
                pos2 += n;
            }
            if !rej2 && pos2 < wire.len() {
                rej2 = d2.decode_copy(&wire[pos2..]).is_err();
            }
            let acc2 = !rej2 && match d2.finish() {
                Ok(iov) => {
                    out2.extend_from_slice(&iov.flatten().unwrap_or_else(|v| v));
                    true
                }
                Err(_) => false,
            };
            let ok2 = match (acc2, expected) {
                (true, Some(e)) => &out2 == e,
                (false, None) => true,
                _ => false,
            };
            if ok2 {
                vs.push(V { prop: "C17", inv: if failed_reads > 0 { "C17.decoder_output_after_failed_read" } else { "C17.decoder_output_after_read" }, detail: format!("the decoder's result is wrong after input through read_n/decode_read ({} failed read(s) that delivered nothing); with the same bytes fed by copy it is right", failed_reads), at: usize::MAX });
            }
        }
        match (accepted, expected) {
            (true, Some(e)) if &out == e => {}
            (false, None) => stats.bump("probe.decoder_rejected_malformed"),
            (true, Some(e)) => vs.push(V { prop: "C07", inv: "C07.decoder_bytes", detail: format!("decoder returned {} bytes, the format defines {} (first difference at {})", out.len(), e.len(), out.iter().zip(e.iter()).position(|(a, b)| a != b).unwrap_or(out.len().min(e.len()))), at: usize::MAX }),
            (true, None) => vs.push(V { prop: "C07", inv: "C07.decoder_accepts_malformed", detail: format!("decoder accepted a {}-byte string the format rejects", wire.len()), at: usize::MAX }),
            (false, Some(_)) => vs.push(V { prop: "C07", inv: "C07.decoder_rejects_wellformed", detail: format!("decoder rejected a well-formed {}-byte message", wire.len()), at: usize::MAX }),
        }
        if let Some(p) = plain {
            if !accepted {
                vs.push(V { prop: "C01", inv: "C01.roundtrip_rejected", detail: "decoding the encoder's own output failed".into(), at: usize::MAX });
            } else if out != p {
                vs.push(V { prop: "C01", inv: "C01.roundtrip", detail: format!("decoded {} bytes != original {} bytes (first difference at {})", out.len(), p.len(), out.iter().zip(p.iter()).position(|(a, b)| a != b).unwrap_or(out.len().min(p.len()))), at: usize::MAX });
            }
        }
        for v in vs {
            self.push(v.prop, v.inv, v.detail, v.at);
        }
    }
}

/// A byte string that looks like a chunk sequence: headers drawn from valid
/// and out-of-radix digits, payloads of exactly (or almost) the announced
/// size, ending after a short chunk, a full chunk or mid-chunk.
fn structured_wire(seed: u64, m1: usize, m2: usize) -> Vec<u8> {
    let mut rng = Rng::new(seed ^ 0x57a7);
    let mut out = Vec::new();
    let tiny = m2 < 100;
    let b0 = match rng.below(8) {
        0 => m1 as u64 + 1,
        1 => *rng.pick(&[253u64, 254, 255]),
        2 => m1 as u64,
        _ => rng.below(m1 as u64 + 1),
    }
    .min(255);
    out.push(b0 as u8);
    let jitter = |rng: &mut Rng, size: usize| -> usize {
        match rng.below(12) {
            0 => size.saturating_sub(1),
            1 => size + 1,
            _ => size,
        }
    };
    let n0 = jitter(&mut rng, b0 as usize);
    out.extend_from_slice(pool_slice(rng.below(1 << 19), n0 as u64));
    for _ in 0..rng.below(4) {
        let lo = if tiny {
            match rng.below(6) {
                0 => *rng.pick(&[252u64, 253, 254, 255]),
                1 => m2 as u64 + 1,
                2 => m2 as u64,
                _ => rng.below(m2 as u64 + 1),
            }
        } else {
            match rng.below(4) {
                0 => *rng.pick(&[252u64, 253, 254, 255]),
                _ => rng.below(256),
            }
        };
        let hi = if tiny {
            *rng.pick(&[0u64, 0, 0, 0, 0, 1, 253, 255])
        } else {
            *rng.pick(&[0u64, 0, 0, 0, 1, 2, 3, 252, 253, 254, 255])
        };
        out.push(lo as u8);
        if rng.chance(1, 20) {
            break;
        }
        out.push(hi as u8);
        let size = (lo + 253 * hi) as usize;
        if size > 66_000 {
            out.extend_from_slice(pool_slice(rng.below(1 << 19), rng.below(40)));
            break;
        }
        let n = jitter(&mut rng, size);
        out.extend_from_slice(pool_slice(rng.below(1 << 19), n as u64));
    }
    out
}

fn gen_short(rng: &mut Rng, ask: Ask, seed: u64, index: u64) -> Plan {
    let mut knobs = std::collections::BTreeMap::new();
    let public = !ask.tiny && rng.chance(3, 10);
    let (m1, m2) = if public {
        (252, 64008)
    } else {
        match if ask.tiny { 2 + rng.below(8) } else { rng.below(10) } {
            0 => (3, 5),
            1 => (252, 64008),
            _ => (rng.range(1, 6), rng.range(1, 9)),
        }
    };
    let tiny = m1 < 100;
    knobs.insert("public".into(), public as u64);
    knobs.insert("m1".into(), m1);
    knobs.insert("m2".into(), m2);
    knobs.insert("hard_errors".into(), rng.chance(1, 3) as u64);
    knobs.insert("tail_method".into(), rng.below(4));
    if rng.chance(1, 6) {
        knobs.insert("prefix_len".into(), rng.range(1, if tiny { 6 } else { 300 }));
        knobs.insert("prefix_copy".into(), rng.below(2));
    }
    if rng.chance(1, 8) {
        knobs.insert("dec_prefix_len".into(), rng.range(1, if tiny { 6 } else { 300 }));
    }
    let decoder_focus = ask.prop == "C07" && rng.chance(1, 2);
    if decoder_focus || rng.chance(1, 10) {
        match rng.below(5) {
            3 | 4 => {
                knobs.insert("wire_mode".into(), 3);
                knobs.insert("wire_off".into(), rng.next() >> 1);
            }
            0 => {
                knobs.insert("wire_mode".into(), 1);
                knobs.insert("wire_region".into(), rng.below(5));
                knobs.insert("wire_off".into(), rng.below(100_000));
                knobs.insert("wire_len".into(), rng.boundary_size(&[0, 1, 2, 3], if tiny { 24 } else { 700 }));
            }
            1 => {
                knobs.insert("wire_mode".into(), 2);
                knobs.insert("wire_off".into(), rng.below(1 << 20));
                knobs.insert("wire_len".into(), rng.range(0, 6));
            }
            _ => {}
        }
        knobs.insert("sweep".into(), (!ask.tiny && rng.chance(1, 3)) as u64);
    }
    let mut ops = Vec::new();
    // Alphabet for this run.
    let class = *rng.pick(&[0u64, 1, 1, 2, 2, 3, 4]);
    let (roff, rlen) = region(class);
    let drains = rng.chance(8, 10);
    let arena = rng.chance(3, 10);
    let nfeeds = if ask.tiny { rng.range(0, 5) } else if tiny { rng.range(0, 9) } else { rng.range(0, 8) };
    // Length plan for production limits.
    let total_target: u64 = if tiny {
        0
    } else {
        match rng.below(6) {
            0 => rng.range(0, 600),
            1 => rng.range(240, 264),
            2 => 252 + 64008 + rng.range(0, 600) - 300,
            3 => rng.range(130_000, 200_000),
            4 => 252 + 2 * 64008 + rng.range(0, 40) - 20,
            _ => rng.range(0, 5000),
        }
    };
    let methods: Vec<u64> = {
        let all = [0u64, 1, 2, 3, 4, 5];
        let mut m: Vec<u64> = all.iter().copied().filter(|_| rng.chance(6, 10)).collect();
        if m.is_empty() {
            m.push(rng.below(6));
        }
        m
    };
    let mut fed = 0u64;
    for f in 0..nfeeds {
        let method = *rng.pick(&methods);
        let r = rng.below(10);
        if r < 2 {
            ops.push(Op::new("lit", [method, rng.below(LITS.len() as u64), 0, 0]));
        } else if r < 4 {
            ops.push(Op::new("pad_to", [method, rng.below(4), 0, 0]));
            ops.push(Op::new("lit", [*rng.pick(&methods), rng.below(LITS.len() as u64), 0, 0]));
        } else {
            let len = if tiny {
                rng.boundary_size(&[0, 1, 2, m1, m2], 10)
            } else {
                let left = total_target.saturating_sub(fed);
                if f + 1 == nfeeds { left } else { rng.boundary_size(&[0, 1, 64, 252, 256], left.max(1)).min(left.max(300)) }
            };
            fed += len;
            let off = roff as u64 + rng.below((rlen as u64).saturating_sub(len + 1).max(1));
            let script = if rng.chance(1, 3) { 0 } else { rng.next() >> 1 };
            ops.push(Op::new("feed", [method, off, len, script]));
        }
        if drains && rng.chance(1, 2) {
            ops.push(Op::new("edrain", [rng.below(4), rng.boundary_size(&[0, 1, 2, 3], if tiny { 8 } else { 70_000 }), 0, 0]));
        }
        if arena && rng.chance(1, 4) {
            ops.push(Op::new("earena", [rng.below(4), rng.below(140_000), 0, 0]));
        }
    }
    if (ask.prop == "C07" && rng.chance(1, 3)) || rng.chance(1, 12) {
        for _ in 0..rng.range(1, 3) {
            ops.push(Op::new("corrupt", [rng.below(6), rng.next() >> 1, rng.below(256), 0]));
        }
    }
    let ndf = rng.range(0, 8);
    for _ in 0..ndf {
        let len = if rng.chance(1, 2) { rng.range(0, 4) } else { rng.boundary_size(&[1, 2, 3, 253, 254, 255], if tiny { 12 } else { 70_000 }) };
        ops.push(Op::new("dfeed", [rng.below(4), len, if rng.chance(1, 3) { 0 } else { rng.next() >> 1 }, 0]));
        if drains && rng.chance(1, 2) {
            ops.push(Op::new("ddrain", [rng.below(4), rng.boundary_size(&[0, 1, 2], if tiny { 8 } else { 70_000 }), 0, 0]));
        }
        if arena && rng.chance(1, 5) {
            ops.push(Op::new("darena", [rng.below(4), rng.below(140_000), 0, 0]));
        }
    }
    Plan {
        world: "codec",
        mode: if tiny { "tiny".into() } else if public { "prod-public".into() } else { "prod-raw".into() },
        seed,
        index,
        knobs,
        ops,
    }
}

impl World for CodecWorld {
    fn name(&self) -> &'static str {
        "codec"
    }
    fn kinds(&self) -> &'static [&'static str] {
        KINDS
    }
    fn serves(&self) -> &'static [&'static str] {
        &["C01", "C02", "C05", "C07", "C09", "C10", "C17"]
    }
    fn runs(&self, ask: Ask) -> u64 {
        if ask.thorough {
            20_000_000
        } else {
            400_000
        }
    }
    fn components(&self) -> (Vec<&'static str>, Vec<&'static str>) {
        (
            vec![
                "hcobs (Encoder, Decoder, EncoderState, DecoderState; hcobs::verif::RawEncoder/RawDecoder wrappers for caller-chosen limits)",
                "owning_iovec (output pipe, arena, anchored reads)",
            ],
            vec!["std::io::Read arguments of read_n/encode_read/decode_read (SimReader, scripted)", "caller buffers (immutable pool, wire vector)"],
        )
    }
    fn rule(&self) -> &'static str {
        "one run = one seeded plan: plaintext pieces x input method per piece x interleaved drain/arena operations on the encoder, optional wire corruption, then wire pieces x method x drains on the decoder; limits drawn per run (tiny via hook H2, production via the public API); non-trivial = at least 2 feed calls on one side and at least 4 operations; distinct = distinct (mode, operation-kind sequence)"
    }
    fn generate(&self, seed: u64, index: u64, ask: Ask) -> Plan {
        let mut rng = Rng::new(crate::prng::mix(&[seed, 0xc0dec, index]));
        gen_short(&mut rng, ask, seed, index)
    }
    fn execute(&self, plan: &Plan, stats: &mut Stats) -> Outcome {
        let mut log = LogHash::new();
        // Calibrate before anything of this run is numbered or counted.
        let _ = arena_large_granule();
        start_run_chunk_numbering();
        let base = (ByteArena::num_live_chunks(), ByteArena::num_live_bytes(), owning_iovec::verif::live_totals());
        let mut run = Run {
            plan,
            m1: plan.knob("m1").max(1) as usize,
            m2: plan.knob("m2").max(1) as usize,
            public: plan.knob("public") != 0,
            hard: plan.knob("hard_errors") != 0,
            vs: Vec::new(),
            stage: std::cell::Cell::new("encode"),
        };
        if run.public {
            run.m1 = refcodec::PROD_M1;
            run.m2 = refcodec::PROD_M2;
        }
        run.m1 = run.m1.min(252);
        run.m2 = run.m2.min(64008);
        let result = std::panic::catch_unwind(AssertUnwindSafe(|| {
            run.execute(stats, &mut log);
        }));
        let mut violations: Vec<Violation> = run
            .vs
            .into_iter()
            .map(|v| Violation { prop: v.prop, inv: v.inv.to_string(), detail: v.detail, at_op: v.at, key: String::new() })
            .collect();
        if let Err(e) = result {
            let msg = panic_message(&e);
            if msg.starts_with("harness:") {
                eprintln!("HARNESS ERROR: {}", msg);
                std::process::exit(2);
            }
            let loc = crate::driver::last_panic_location(&msg);
            let overlap = msg.contains("verif: new arena chunk overlaps");
            // A panic anywhere in the pipeline breaks every claim that the
            // pipeline was supposed to establish for this run.
            let props: &[&'static str] = if overlap {
                &["C05"]
            } else {
                match (run.stage.get(), loc.contains("byte_arena")) {
                    ("drain", _) => &["C09"],
                    ("encode", true) => &["C17", "C01"],
                    ("encode", false) => &["C01"],
                    ("decode", true) => &["C17", "C01", "C07"],
                    ("decode", false) => &["C01", "C07"],
                    (_, true) => &["C17", "C07"],
                    _ => &["C07"],
                }
            };
            for p in props {
                violations.push(Violation { prop: p, inv: format!("{}.panic", p), detail: format!("panic in the codec pipeline: {}", loc), at_op: usize::MAX, key: String::new() });
            }
        } else {
            let now = (ByteArena::num_live_chunks(), ByteArena::num_live_bytes(), owning_iovec::verif::live_totals());
            if now != base {
                violations.push(Violation { prop: "C10", inv: "C10.leak_after_drop".into(), detail: format!("after dropping encoder, decoder and iovecs: {:?}, baseline {:?}", now, base), at_op: usize::MAX, key: String::new() });
            }
        }
        log.u64(violations.len() as u64);
        let feeds = plan.ops.iter().filter(|o| matches!(o.k, "feed" | "lit" | "pad_to")).count();
        let dfeeds = plan.ops.iter().filter(|o| o.k == "dfeed").count();
        Outcome {
            violations,
            log_hash: log.0,
            nontrivial: (feeds >= 2 || dfeeds >= 2) && plan.ops.len() >= 4,
        }
    }
}

// ---------------------------------------------------------------------------
// Long streaming runs: an unbounded stream through Encoder -> Decoder with
// production limits, drained on the fly.  Serves C09 (lag bound independent
// of the stream length, nothing lost/duplicated/reordered) and C10 (bounded
// arena footprint, no leak after drop).
// ---------------------------------------------------------------------------

pub struct LongWorld;

pub const LONG_KINDS: &[&str] = &["burst"];

fn schedule_is_small(s: u64) -> bool {
    s == 5 || s == 7 || s == 8
}

/// A one-byte pool slice holding `b`.
fn lone_byte(b: u8) -> &'static [u8] {
    static AT: std::sync::OnceLock<[usize; 256]> = std::sync::OnceLock::new();
    let at = AT.get_or_init(|| {
        let mut t = [usize::MAX; 256];
        for (i, &x) in pool().iter().enumerate() {
            if t[x as usize] == usize::MAX {
                t[x as usize] = i;
            }
        }
        t
    });
    let i = at[b as usize];
    assert!(i != usize::MAX, "harness: byte missing from the pool");
    &pool()[i..i + 1]
}

pub fn footprint_bound(largest_alloc: usize, objects: usize) -> usize {
    objects * 4 * arena_chunk_bound(largest_alloc)
}

impl World for LongWorld {
    fn name(&self) -> &'static str {
        "longrun"
    }
    fn kinds(&self) -> &'static [&'static str] {
        LONG_KINDS
    }
    fn serves(&self) -> &'static [&'static str] {
        &["C09", "C10", "C01", "C02", "C06"]
    }
    fn runs(&self, ask: Ask) -> u64 {
        match (ask.prop, ask.thorough) {
            ("C06", false) => 24,
            ("C06", true) => 96,
            (_, false) => 96,
            (_, true) => 384,
        }
    }
    fn components(&self) -> (Vec<&'static str>, Vec<&'static str>) {
        (
            vec!["hcobs (public Encoder and Decoder, production limits; StreamReader for long logs)", "owning_iovec (arena growth, anchors, reclamation)"],
            vec!["std::io::Read argument of encode_read/decode_read (SimReader)", "caller buffers (immutable pool, per-call wire vector)"],
        )
    }
    fn rule(&self) -> &'static str {
        "one run = one long stream (64 MiB quick, up to 512 MiB thorough) fed in pieces drawn from a per-run schedule (fixed 1000 B, uniform, large with one-byte bursts, exact chunk size, small packets, multi-MiB calls, a trickling flaky source, blocks separated by calls that carry one lone delimiter byte), per-run method mix, payload class (zeros keep chunks open for 64008 bytes, dense closes them constantly) and drain policy; every call is followed by the lag, footprint and content checks; non-trivial = at least 1000 calls; distinct = distinct knob vector"
    }
    fn generate(&self, seed: u64, index: u64, ask: Ask) -> Plan {
        let mut rng = Rng::new(crate::prng::mix(&[seed, 0x10c6, index]));
        let mut knobs = std::collections::BTreeMap::new();
        let mib = if ask.thorough { *rng.pick(&[64u64, 128, 256, 512]) } else { 64 };
        knobs.insert("keep_total_mib".into(), mib);
        knobs.insert("payload_class".into(), *rng.pick(&[4u64, 4, 0, 1, 3, 2]));
        // Stratified by run index so that every batch covers the piece
        // schedules x arena ownership x input-method mixes that matter.
        let lane = index / 4 * 3 + index % 4; // indices with index % 4 == 3 are reader logs
        knobs.insert("schedule".into(), lane % 9);
        let method_sets = [4u64, 15, 8, 5, 2, 1, 12, 3];
        knobs.insert("methods".into(), method_sets[((lane / 12) % 8) as usize]);
        knobs.insert("dec_methods".into(), [2u64, 7, 1, 4][((lane / 3) % 4) as usize]);
        // C10's footprint bound needs the consumer to keep up.
        knobs.insert("drain_policy".into(), if ask.prop == "C10" { 0 } else { rng.below(3) });
        knobs.insert("eintr".into(), rng.below(2));
        knobs.insert("sched_seed".into(), rng.next() >> 1);
        // Anchored input read into a separate arena (a reader that owns its buffers).
        knobs.insert("separate_arena".into(), (index / 4 / 2) % 2);
        knobs.insert("recycled_iovec".into(), (index % 5 == 1) as u64);
        if index % 4 == 3 || ask.prop == "C06" {
            // A long log read back through StreamReader.
            knobs.insert("reader_log".into(), 1);
            knobs.insert("keep_total_mib".into(), if ask.thorough { *rng.pick(&[32u64, 64, 128]) } else { 16 });
            knobs.insert("record_class".into(), (index / 4) % 7);
            knobs.insert("block".into(), *rng.pick(&[0u64, 7, 4096, 65536, 65536, 0]));
            return Plan { world: "longrun", mode: "long-log".into(), seed, index, knobs, ops: Vec::new() };
        }
        if schedule_is_small(knobs["schedule"]) {
            knobs.insert("keep_total_mib".into(), if ask.thorough { 64 } else { 24 });
        }
        Plan { world: "longrun", mode: "long".into(), seed, index, knobs, ops: Vec::new() }
    }
    fn execute(&self, plan: &Plan, stats: &mut Stats) -> Outcome {
        let mut log = LogHash::new();
        let _ = arena_large_granule();
        let base = (ByteArena::num_live_chunks(), ByteArena::num_live_bytes(), owning_iovec::verif::live_totals());
        let mut vs: Vec<V> = Vec::new();
        let mut calls = 0u64;
        let result = std::panic::catch_unwind(AssertUnwindSafe(|| {
            if plan.knob("reader_log") != 0 {
                crate::w_stream::long_log(plan, stats, &mut log, &mut vs, base.1, &mut calls);
            } else {
                long_run(plan, stats, &mut log, &mut vs, base.1, &mut calls);
            }
        }));
        let mut violations: Vec<Violation> = vs
            .into_iter()
            .map(|v| Violation { prop: v.prop, inv: v.inv.to_string(), detail: v.detail, at_op: v.at, key: String::new() })
            .collect();
        // A long stream is one long message: what breaks it breaks the round trip.
        let mirrored: Vec<Violation> = violations
            .iter()
            .filter(|v| v.inv == "C09.stream_mismatch" || v.inv == "C09.stream_rejected")
            .map(|v| Violation { prop: "C01", inv: "C01.stream_roundtrip".into(), detail: v.detail.clone(), at_op: v.at_op, key: String::new() })
            .collect();
        violations.extend(mirrored.into_iter().take(1));
        if let Err(e) = result {
            let msg = panic_message(&e);
            if msg.starts_with("harness:") {
                eprintln!("HARNESS ERROR: {}", msg);
                std::process::exit(2);
            }
            let loc = crate::driver::last_panic_location(&msg);
            for p in ["C09", "C10", "C01"] {
                violations.push(Violation { prop: p, inv: format!("{}.panic_while_streaming", p), detail: format!("panic after {} calls: {}", calls, loc), at_op: usize::MAX, key: String::new() });
            }
        } else {
            let now = (ByteArena::num_live_chunks(), ByteArena::num_live_bytes(), owning_iovec::verif::live_totals());
            if now != base {
                violations.push(Violation { prop: "C10", inv: "C10.leak_after_drop".into(), detail: format!("after the stream: {:?}, baseline {:?}", now, base), at_op: usize::MAX, key: String::new() });
            }
        }
        log.u64(violations.len() as u64);
        Outcome { violations, log_hash: log.0, nontrivial: calls >= 1000 }
    }
}

fn long_run(plan: &Plan, stats: &mut Stats, log: &mut LogHash, vs: &mut Vec<V>, base_bytes: usize, calls: &mut u64) {
    let total = (plan.knob("keep_total_mib").max(1) as usize) << 20;
    let (roff, rlen) = region(plan.knob("payload_class"));
    let schedule = plan.knob("schedule");
    let methods = plan.knob("methods").max(1);
    let dec_methods = plan.knob("dec_methods").max(1);
    let policy = plan.knob("drain_policy");
    let eintr = plan.knob("eintr") != 0;
    let mut rng = Rng::new(plan.knob("sched_seed") ^ 0x10c6);
    // Some runs start from a recycled iovec: used, given a placeholder that was
    // never filled, cleared, and handed to a new encoder.
    let mut enc: hcobs::Encoder<'static> = if plan.knob("recycled_iovec") != 0 {
        let mut iov = OwningIovec::new();
        iov.push_copy(b"previous use");
        let _abandoned = iov.register_patch(&[0u8, 0u8]);
        iov.clear();
        hcobs::Encoder::new_from_iovec(iov)
    } else {
        hcobs::Encoder::new()
    };
    let mut dec: hcobs::Decoder<'_> = hcobs::Decoder::new();
    let separate = plan.knob("separate_arena") != 0;
    let mut reader_arena = ByteArena::new();
    let mut reader_arena2 = ByteArena::new();
    let mut fed = 0usize;
    let mut expected: std::collections::VecDeque<&'static [u8]> = Default::default();
    let mut expected_off = 0usize; // offset into expected.front()
    let mut wire_total = 0usize;
    let mut decoded_total = 0usize;
    let mut largest_alloc = 0usize;
    let mut max_lag = 0usize;
    let mut max_live = 0usize;
    let mut burst_left = 0u32;
    let mut phase = 0u64;
    let mut wire_piece: Vec<u8> = Vec::new();
    let mut out_piece: Vec<u8> = Vec::new();
    let push_v = |vs: &mut Vec<V>, prop: &'static str, inv: &'static str, detail: String| {
        if !vs.iter().any(|v| v.inv == inv) {
            vs.push(V { prop, inv, detail, at: usize::MAX });
        }
    };
    let pick_bit = |rng: &mut Rng, set: u64, n: u64| -> u64 {
        loop {
            let b = rng.below(n);
            if set & (1 << b) != 0 {
                return b;
            }
        }
    };
    let script = |rng: &mut Rng| -> u64 {
        if eintr && rng.chance(1, 3) { rng.next() >> 1 } else { 0 }
    };
    while fed < total {
        // Piece size by schedule.
        let len = if burst_left > 0 {
            burst_left -= 1;
            1
        } else {
            match schedule {
                0 => 1000,
                1 => rng.range(1, 4096) as usize,
                2 => rng.range(1, 70_000) as usize,
                3 => {
                    if rng.chance(1, 200) {
                        burst_left = rng.range(1, 300) as u32;
                    }
                    rng.range(60_000, 70_000) as usize
                }
                4 => *rng.pick(&[64008usize, 64008, 64007, 64009, 252, 4096]),
                5 => *rng.pick(&[32usize, 32, 48, 100]),
                // A trickling, flaky source: see the read below.
                7 => *rng.pick(&[100usize, 100, 7, 300]),
                // Blocks separated by calls that carry one byte of a delimiter and
                // nothing else (a call that may produce no output at all).
                8 => {
                    phase += 1;
                    if phase % 2 == 0 {
                        usize::MAX
                    } else {
                        *rng.pick(&[32_768usize, 32_768, 60_000, 1000])
                    }
                }
                // Very large single calls (more than the largest arena chunk).
                _ => *rng.pick(&[1usize << 20, (1 << 20) + 4097, 3 << 19, 2 << 20, 70_000, 1000]),
            }
        }
        ;
        let piece: &'static [u8] = if len == usize::MAX {
            stats.bump("probe.lone_delimiter_byte_call");
            lone_byte(if rng.chance(3, 4) { 0xFE } else { 0xFD })
        } else {
            let len = len.min(total - fed);
            let (off, len) = if len > rlen / 2 {
                // Huge pieces span pool regions (any alphabet mix).
                let len = len.min(POOL_SIZE - 1);
                (rng.below((POOL_SIZE - len) as u64) as usize, len)
            } else {
                (roff + (rng.below((rlen - len) as u64) as usize), len)
            };
            &pool()[off..off + len]
        };
        let len = piece.len();
        let m = if schedule == 7 { 3 } else { pick_bit(&mut rng, methods, 4) };
        if schedule == 7 && *calls % 2 == 1 {
            // The source is not ready: a large read that fails before delivering
            // anything.  It must leave nothing behind.
            let mut reader = SimReader::new(piece, vec![Step::Fail(std::io::ErrorKind::WouldBlock)], false);
            let r = enc.encode_read(&mut reader, 65_536, NonZeroUsize::new(1).unwrap());
            if r.is_ok() {
                push_v(vs, "C17", "C17.result", "encode_read succeeded although the reader failed first".into());
            }
            largest_alloc = largest_alloc.max(65_536);
            stats.bump("fault.hard_error");
            *calls += 1;
            continue;
        }
        let delivered = match m {
            0 => {
                enc.encode(piece);
                len
            }
            1 => {
                enc.encode_copy(piece);
                len
            }
            _ => {
                let (sc, tail) = script_from(if schedule == 7 { 0 } else { script(&mut rng) }, false);
                let mut reader = SimReader::new(piece, sc, tail);
                largest_alloc = largest_alloc.max(len);
                let att = NonZeroUsize::new(usize::MAX).unwrap();
                let n = if m == 2 {
                    let s = if separate {
                        reader_arena.read_n(&mut reader, len, att)
                    } else {
                        enc.read_n(&mut reader, len, att)
                    }
                    .expect("harness: fault-free reader failed");
                    let n = s.slice().len();
                    enc.encode_anchored(s);
                    n
                } else if schedule == 7 {
                    // Ask for a whole block, get a trickle.
                    largest_alloc = largest_alloc.max(65_536);
                    enc.encode_read(&mut reader, 65_536, NonZeroUsize::new(1).unwrap()).expect("harness: fault-free reader failed")
                } else {
                    enc.encode_read(&mut reader, len, att).expect("harness: fault-free reader failed")
                };
                if reader.fired[2] > 0 {
                    stats.add("fault.eintr", reader.fired[2]);
                }
                if reader.fired[0] > 0 {
                    stats.add("fault.short_read", reader.fired[0]);
                }
                n
            }
        };
        if delivered > 0 {
            expected.push_back(&piece[..delivered]);
        }
        fed += delivered;
        *calls += 1;
        stats.ops_executed += 1;

        // Encoder-side invariants.
        {
            let c = enc.consumer();
            let lag = c.total_size() - stable_bytes(&c);
            max_lag = max_lag.max(lag);
            if lag > lag_bound(largest_alloc, 64008) {
                push_v(vs, "C09", "C09.encoder_lag", format!("after {} bytes: {} produced but unconsumable bytes, bound {}", fed, lag, lag_bound(largest_alloc, 64008)));
            }
        }
        // Drain the encoder according to the policy.
        wire_piece.clear();
        let do_drain = match policy {
            0 => true,
            1 => *calls % 7 == 0,
            _ => true,
        };
        if do_drain {
            let kind = if policy == 2 { 1 } else { 3 };
            let n = if policy == 2 { stable_bytes(&enc.consumer()).saturating_sub(rng.below(5000) as usize) } else { 0 };
            if let Err(d) = drain(enc.consumer(), kind, n, &mut wire_piece, stats) {
                push_v(vs, "C09", "C09.drain_ret", d);
            }
        }
        wire_total += wire_piece.len();
        if find_stuff(&wire_piece).is_some() {
            push_v(vs, "C02", "C02.stuff_in_output", format!("FE FD in the streamed encoder output near wire offset {}", wire_total));
        }
        // Feed the decoder.
        if !wire_piece.is_empty() {
            let dm = pick_bit(&mut rng, dec_methods, 3);
            // Schedule 8 hands the decoder the first byte on its own: after a
            // full drain that is one byte of a chunk header, a call that
            // produces no output.
            let cut = if schedule == 8 && wire_piece.len() > 1 { 1 } else { 0 };
            let mut ok = true;
            for part in [&wire_piece[..cut], &wire_piece[cut..]] {
                if part.is_empty() || !ok {
                    continue;
                }
                ok = match dm {
                    0 => dec.decode_copy(part).is_ok(),
                    _ => {
                        let (sc, tail) = script_from(script(&mut rng), false);
                        let mut reader = SimReader::new(part, sc, tail);
                        let att = NonZeroUsize::new(usize::MAX).unwrap();
                        largest_alloc = largest_alloc.max(part.len());
                        if dm == 1 {
                            let s = if separate {
                                reader_arena2.read_n(&mut reader, part.len(), att)
                            } else {
                                dec.read_n(&mut reader, part.len(), att)
                            }
                            .expect("harness: fault-free reader failed");
                            dec.decode_anchored(s).is_ok()
                        } else {
                            dec.decode_read(&mut reader, part.len(), att).is_ok()
                        }
                    }
                };
            }
            if !ok {
                push_v(vs, "C09", "C09.stream_rejected", format!("decoder rejected the streamed output at wire offset {}", wire_total));
                break;
            }
            *calls += 1;
        }
        {
            let c = dec.consumer();
            if c.total_size() != stable_bytes(&c) {
                push_v(vs, "C09", "C09.decoder_lag", format!("decoder holds {} bytes, {} consumable", c.total_size(), stable_bytes(&c)));
            }
        }
        out_piece.clear();
        if let Err(d) = drain(dec.consumer(), 3, 0, &mut out_piece, stats) {
            push_v(vs, "C09", "C09.drain_ret", d);
        }
        // Compare with the expected plaintext queue.
        let mut p = 0usize;
        while p < out_piece.len() {
            let Some(front) = expected.front() else {
                push_v(vs, "C09", "C09.stream_mismatch", format!("decoder produced more than was fed (at {})", decoded_total + p));
                break;
            };
            let avail = &front[expected_off..];
            let n = avail.len().min(out_piece.len() - p);
            if avail[..n] != out_piece[p..p + n] {
                push_v(vs, "C09", "C09.stream_mismatch", format!("streamed round trip differs near plaintext offset {}", decoded_total + p));
                break;
            }
            p += n;
            expected_off += n;
            if expected_off == front.len() {
                expected.pop_front();
                expected_off = 0;
            }
        }
        decoded_total += out_piece.len();
        if vs.iter().any(|v| v.inv == "C09.stream_mismatch") {
            break;
        }
        // Footprint.
        let live = ByteArena::num_live_bytes().saturating_sub(base_bytes);
        max_live = max_live.max(live);
        let objects = if separate { 4 } else { 2 };
        if policy == 0 && live > footprint_bound(largest_alloc, objects) {
            push_v(vs, "C10", "C10.stream_footprint", format!("after {} bytes streamed with full drains: {} live arena bytes, bound {}", fed, live, footprint_bound(largest_alloc, objects)));
        }
    }
    // Finish both ends.
    let fin = enc.finish();
    let rest = fin.flatten().unwrap_or_else(|v| v);
    drop(fin);
    if find_stuff(&rest).is_some() {
        push_v(vs, "C02", "C02.stuff_in_output", "FE FD in the final encoder output".into());
    }
    let ok = dec.decode_copy(&rest).is_ok();
    let tail = match dec.finish() {
        Ok(iov) if ok => iov.flatten().unwrap_or_else(|v| v),
        _ => {
            if !vs.iter().any(|v| v.inv == "C09.stream_rejected" || v.inv == "C09.stream_mismatch") {
                push_v(vs, "C09", "C09.stream_rejected", "decoder rejected the end of the streamed output".into());
            }
            Vec::new()
        }
    };
    let mut remaining: Vec<u8> = Vec::new();
    for (i, e) in expected.iter().enumerate() {
        remaining.extend_from_slice(if i == 0 { &e[expected_off..] } else { e });
    }
    if vs.is_empty() && tail != remaining {
        push_v(vs, "C09", "C09.stream_mismatch", format!("end of stream: {} bytes left to deliver, decoder delivered {}", remaining.len(), tail.len()));
    }
    log.u64(fed as u64);
    log.u64(wire_total as u64);
    log.u64(*calls);
    log.u64(max_lag as u64);
    stats.add("probe.long_stream_bytes", fed as u64);
    stats.counters.entry("probe.max_encoder_lag_bytes".into()).and_modify(|v| *v = (*v).max(max_lag as u64)).or_insert(max_lag as u64);
    stats.counters.entry("probe.max_live_arena_bytes".into()).and_modify(|v| *v = (*v).max(max_live as u64)).or_insert(max_live as u64);
    let mut sig = LogHash::new();
    for k in ["payload_class", "schedule", "methods", "dec_methods", "drain_policy", "eintr", "keep_total_mib", "separate_arena"] {
        sig.u64(plan.knob(k));
    }
    stats.state(sig.0);
}
