//! Deterministic simulation with fault injection for pkhuong/woodpile.
//! See /verif/DESIGN.md.
#![allow(dead_code, private_interfaces, unexpected_cfgs)]
mod driver;
mod json;
mod minimise;
mod miri;
mod plan;
mod prng;
mod quarantine;
mod simio;
mod refcodec;
mod w_codec;
mod w_iovec;
mod w_stream;
mod w_threads;
mod w_vtime;

use std::path::Path;

use driver::*;
use json::J;
use plan::*;

pub const PROPS: &[&str] = &[
    "C01", "C02", "C03", "C04", "C05", "C06", "C07", "C08", "C09", "C10", "C13", "C14", "C17",
    "C18", "C19", "C20",
];

pub static WORLDS: &[&'static dyn World] = &[&w_iovec::IovecWorld, &w_codec::CodecWorld, &w_codec::LongWorld, &w_stream::StreamWorld, &w_threads::ThreadsWorld, &w_vtime::VtimeWorld, &w_threads::NfsThreadsWorld, &w_threads::ChunkThreadsWorld];

#[global_allocator]
static GLOBAL: quarantine::Quarantine = quarantine::Quarantine::new();

const DEFAULT_SEED: u64 = 20261004;

/// Property blamed when a worker process of this world dies outright
/// (abort, signal, sanitizer report): a memory-safety failure.
pub fn crash_property(world: &str) -> &'static str {
    match world {
        "threads" => "C13",
        "vtime" | "nfsthreads" => "C19",
        "chunkthreads" => "C10",
        _ => "C05",
    }
}

pub fn world_by_name(name: &str) -> &'static dyn World {
    world(name)
}

fn world(name: &str) -> &'static dyn World {
    WORLDS
        .iter()
        .find(|w| w.name() == name)
        .copied()
        .unwrap_or_else(|| {
            eprintln!("harness: unknown world {}", name);
            std::process::exit(2)
        })
}

fn prop_static(name: &str) -> &'static str {
    PROPS.iter().find(|p| **p == name).copied().unwrap_or_else(|| {
        eprintln!("harness: unknown or unclaimed property {}", name);
        std::process::exit(2)
    })
}

fn jobs_for(prop: &'static str, thorough: bool, scale: f64) -> (Vec<Job>, &'static str) {
    let ask = Ask { prop, thorough, tiny: false };
    let mk = |w: &str, share: f64| {
        let world = world(w);
        Job {
            world,
            ask,
            runs: ((world.runs(ask) as f64) * share * scale).max(1.0) as u64,
            exe: None,
            first_index: 0,
            label: "",
        }
    };
    // Thorough tier of C05: the same plans again under AddressSanitizer
    // (binary built by ./check from the same sources with nightly).
    let asan = |w: &str, runs: u64| -> Option<Job> {
        let exe = std::env::var("VERIF_ASAN_EXE").ok()?;
        Some(Job {
            world: world(w),
            ask,
            runs: ((runs as f64) * scale).max(1.0) as u64,
            exe: Some(std::path::PathBuf::from(exe)),
            first_index: 0,
            label: "asan-",
        })
    };
    match prop {
        "C03" | "C04" | "C20" => (vec![mk("iovec", 1.0)], "exploration"),
        // The long streams are round trips too (and their wire is scanned for FE FD).
        "C01" | "C02" => (vec![mk("codec", 1.0), mk("longrun", 1.0)], "exploration"),
        "C07" => (vec![mk("codec", 1.0)], "exploration"),
        "C09" => (vec![mk("codec", 1.0), mk("longrun", 1.0)], "exploration"),
        // C06 also reads the long logs (longrun generates nothing else for it).
        "C06" => (vec![mk("stream", 1.0), mk("longrun", 1.0)], "exploration"),
        "C08" => (vec![mk("stream", 1.0)], "exploration"),
        "C13" => (vec![mk("threads", 1.0)], "exploration"),
        "C18" => (vec![mk("threads", 1.0), mk("nfsthreads", 1.0)], "fault_enumeration"),
        "C14" => (vec![mk("vtime", 1.0)], "exploration"),
        // The base time lives in an AtomicBaseTime that concurrent observers and
        // scanners update: its monotonic filter under overlapping writers is
        // part of "never decreases".
        "C19" => (vec![mk("vtime", 1.0), mk("threads", 0.3), mk("nfsthreads", 1.0)], "exploration"),
        "C05" => {
            let mut jobs = vec![mk("iovec", 0.7), mk("codec", 0.6), mk("stream", 0.4)];
            if thorough {
                jobs.extend(asan("iovec", 400_000));
                jobs.extend(asan("codec", 1_000_000));
                jobs.extend(asan("stream", 1_000_000));
            }
            (jobs, "exploration")
        }
        "C10" => (vec![mk("iovec", 0.5), mk("codec", 0.4), mk("stream", 0.3), mk("longrun", 1.0), mk("chunkthreads", 1.0)], "exploration"),
        "C17" => (vec![mk("iovec", 0.6), mk("codec", 0.6)], "exploration"),
        _ => {
            eprintln!("harness: no jobs for {}", prop);
            std::process::exit(2)
        }
    }
}

/// Determinism protocol: for every world, the per-run event-log hashes of
/// `n` runs must be identical (a) between two executions in separate
/// processes and (b) between one process running all of them and four
/// processes running a quarter each (what a different worker count does).
fn selftest(n: u64) -> i32 {
    let exe = std::env::current_exe().expect("current_exe");
    let run = |world: &str, prop: &str, seed: u64, from: u64, to: u64| -> String {
        let out = std::process::Command::new(&exe)
            .args(["hashes", world, prop, &seed.to_string(), &from.to_string(), &to.to_string()])
            .output()
            .expect("harness: cannot spawn hashes");
        String::from_utf8_lossy(&out.stdout).to_string()
    };
    let mut bad = 0;
    for (world, prop, scale) in [("iovec", "C03", 1), ("codec", "C01", 4), ("stream", "C06", 4), ("threads", "C13", 2), ("threads", "C18", 1), ("vtime", "C19", 1), ("nfsthreads", "C18", 1), ("chunkthreads", "C10", 2), ("longrun", "C09", 0)] {
        let n = if scale == 0 { 4 } else { n * scale };
        for seed in [1u64, 20261004] {
            let a = run(world, prop, seed, 0, n);
            let b = run(world, prop, seed, 0, n);
            let mut parts = String::new();
            let q = n.div_ceil(4);
            let handles: Vec<_> = (0..4u64)
                .map(|k| {
                    let exe = exe.clone();
                    let (w, p) = (world.to_string(), prop.to_string());
                    std::thread::spawn(move || {
                        let out = std::process::Command::new(&exe)
                            .args(["hashes", &w, &p, &seed.to_string(), &(k * q).to_string(), &((k + 1) * q).min(n).to_string()])
                            .output()
                            .expect("harness: cannot spawn hashes");
                        String::from_utf8_lossy(&out.stdout).to_string()
                    })
                })
                .collect();
            for h in handles {
                parts.push_str(&h.join().unwrap());
            }
            let lines = a.lines().count() as u64;
            let ok = a == b && a == parts && lines == n;
            println!("selftest determinism world={} prop={} seed={} runs={} repeat={} partition={}", world, prop, seed, lines, if a == b { "same" } else { "DIFFERENT" }, if a == parts { "same" } else { "DIFFERENT" });
            if !ok {
                bad += 1;
            }
        }
    }
    if bad > 0 {
        println!("selftest FAILED: {} world/seed combinations are not deterministic", bad);
        1
    } else {
        println!("selftest ok");
        0
    }
}

fn env_u64(name: &str) -> Option<u64> {
    std::env::var(name).ok().and_then(|s| s.trim().parse().ok())
}

fn main() {
    let args: Vec<String> = std::env::args().collect();
    if args.len() < 2 {
        eprintln!("usage: simw check <prop> <quick|thorough> | replay <file> | worker ... | selftest");
        std::process::exit(2);
    }
    match args[1].as_str() {
        "worker" => {
            // worker <world> <prop> <tier> <seed> <from> <to> <out>
            let w = world(&args[2]);
            let ask = Ask {
                prop: prop_static(&args[3]),
                thorough: args[4] == "thorough",
                tiny: false,
            };
            let seed: u64 = args[5].parse().unwrap();
            let from: u64 = args[6].parse().unwrap();
            let to: u64 = args[7].parse().unwrap();
            worker_main(w, ask, seed, from, to, Path::new(&args[8]), 3);
        }
        "exec1" => exec1_main(),
        "exec-range" => {
            // exec-range <world> <prop> <tier> <seed> <from> <to>: what a worker does, silently.
            install_panic_hook();
            let w = world(&args[2]);
            let ask = Ask { prop: prop_static(&args[3]), thorough: args[4] == "thorough", tiny: false };
            let seed: u64 = args[5].parse().unwrap();
            let from: u64 = args[6].parse().unwrap();
            let to: u64 = args[7].parse().unwrap();
            // Exactly what a worker does for this range (including the in-process
            // minimisation of what it finds), so that a death that depends on the
            // process's history is reproduced.
            let out = std::env::temp_dir().join(format!("woodpile-exec-range-{}.json", std::process::id()));
            worker_main(w, ask, seed, from, to, &out, 3);
            for ext in ["json", "progress", "states", "shapes"] {
                let _ = std::fs::remove_file(out.with_extension(ext));
            }
            std::process::exit(0);
        }
        "miri-batch" => {
            // miri-batch <world> <prop> <seed> <from> <to>: in-process execution of
            // tiny plans, meant to run under `cargo +nightly miri run`.  Prints
            // `RUN <i>` before each run so that the parent knows which plan a
            // Miri report belongs to, and `DONE` at the end.
            install_panic_hook();
            let w = world(&args[2]);
            let ask = Ask { prop: prop_static(&args[3]), thorough: false, tiny: true };
            let seed: u64 = args[4].parse().unwrap();
            let from: u64 = args[5].parse().unwrap();
            let to: u64 = args[6].parse().unwrap();
            let mut stats = Stats::default();
            let mut bad = 0;
            for i in from..to {
                println!("RUN {}", i);
                let plan = w.generate(seed, i, ask);
                let o = w.execute(&plan, &mut stats);
                for v in &o.violations {
                    println!("FOUND {} {} {}", i, v.prop, v.inv);
                    bad += 1;
                }
            }
            println!("DONE ops={}", stats.ops_executed);
            std::process::exit(if bad > 0 { 1 } else { 0 });
        }
        "miri-chunks" => {
            // miri-chunks <seed>: plain threads creating and releasing arena chunks.
            let seed: u64 = args.get(2).and_then(|s| s.parse().ok()).unwrap_or(0);
            std::process::exit(w_iovec::plain_chunk_threads_scenario(seed));
        }
        "miri-threads" => {
            // miri-threads <seed>: hook-free std::thread workload on AtomicBaseTime,
            // meant for `-Zmiri-many-seeds`: Miri's scheduler and weak-memory
            // emulation supply the interleavings and the reads-from choices.
            let seed: u64 = args.get(2).and_then(|s| s.parse().ok()).unwrap_or(0);
            std::process::exit(w_threads::plain_threads_scenario(seed));
        }
        "check" => {
            let prop = prop_static(&args[2]);
            let thorough = args.get(3).map(|s| s == "thorough").unwrap_or(false)
                || std::env::var("VERIF_TIER").map(|t| t == "thorough").unwrap_or(false);
            let seed = env_u64("VERIF_SEED").unwrap_or(DEFAULT_SEED);
            let workers = env_u64("VERIF_WORKERS").unwrap_or(16) as usize;
            let scale = std::env::var("VERIF_SCALE")
                .ok()
                .and_then(|s| s.parse::<f64>().ok())
                .unwrap_or(1.0);
            let (jobs, level) = jobs_for(prop, thorough, scale);
            // Thorough tier: secondary engines under Miri for C05 and C13.
            let mut miri_report = None;
            if thorough && matches!(prop, "C05" | "C13" | "C10") && std::env::var("VERIF_NO_MIRI").is_err() {
                match miri::run_for(prop, &verif_root(), seed, scale) {
                    Ok(r) => miri_report = Some(r),
                    Err(e) => {
                        eprintln!("harness: {}", e);
                        std::process::exit(2);
                    }
                }
            }
            let (extra, extra_lines, extra_violations) = match miri_report {
                Some(r) => (Some(r.extra), r.lines, r.violations),
                None => (None, Vec::new(), 0),
            };
            let report = run_check(prop, thorough, seed, workers, jobs, level, extra, extra_lines, extra_violations);
            std::process::exit(report.exit);
        }
        "replay" | "replay-inproc" => {
            install_panic_hook();
            let text = std::fs::read_to_string(&args[2]).unwrap_or_else(|e| {
                eprintln!("harness: cannot read {}: {}", args[2], e);
                std::process::exit(2)
            });
            let j = J::parse(&text).unwrap_or_else(|e| {
                eprintln!("harness: bad replay file: {}", e);
                std::process::exit(2)
            });
            if args[1] == "replay" {
                match j.get("replay_with").and_then(|x| x.as_str()) {
                    Some("miri") | Some("miri-threads") | Some("miri-chunks") => std::process::exit(miri::replay(&verif_root(), &args[2], &j)),
                    Some(exe) if std::path::Path::new(exe).exists() && std::env::current_exe().map(|c| c != std::path::Path::new(exe)).unwrap_or(true) => {
                        let st = std::process::Command::new(exe).arg("replay").arg(&args[2]).status().expect("harness: cannot spawn replay");
                        std::process::exit(st.code().unwrap_or(1));
                    }
                    _ => {}
                }
            }
            let plan = Plan::from_json(j.get("plan").unwrap_or(&j), WORLDS).unwrap_or_else(|e| {
                eprintln!("harness: bad plan: {}", e);
                std::process::exit(2)
            });
            let expected = j
                .get("expected")
                .and_then(|e| e.get("invariant"))
                .and_then(|x| x.as_str())
                .unwrap_or("")
                .to_string();
            let w = world(plan.world);
            let mut stats = Stats::default();
            if matches!(plan.world, "threads" | "nfsthreads" | "chunkthreads") {
                // Replays of thread worlds print the schedule and the reads-from
                // choices that the plan's seed produces (the fault and schedule trace).
                std::env::set_var("VERIF_TRACE", "1");
            }
            if let (Some(r), true) = (j.get("replay_range"), args[1] == "replay") {
                let ask = Ask {
                    prop: prop_static(r.get("prop").and_then(|x| x.as_str()).unwrap_or("C05")),
                    thorough: matches!(r.get("thorough"), Some(J::Bool(true))),
                    tiny: false,
                };
                let exe = match j.get("replay_with").and_then(|x| x.as_str()) {
                    Some(e) if std::path::Path::new(e).exists() => std::path::PathBuf::from(e),
                    _ => std::env::current_exe().expect("current_exe"),
                };
                let g = |k: &str| r.get(k).and_then(|x| x.as_u64()).unwrap_or(0);
                let survives = exec_range_survives(&exe, r.get("world").and_then(|x| x.as_str()).unwrap_or(""), ask, g("seed"), g("from"), g("to"));
                let expected_prop = j.get("expected").and_then(|e| e.get("property")).and_then(|x| x.as_str()).unwrap_or("C05").to_string();
                if survives {
                    println!("no violation (the process survived runs {}..{})", g("from"), g("to"));
                    std::process::exit(0);
                }
                println!("replay: the process executing runs {}..{} of world {} died", g("from"), g("to"), r.get("world").and_then(|x| x.as_str()).unwrap_or(""));
                println!("VIOLATION property={} replay={}", expected_prop, args[2]);
                std::process::exit(1);
            }
            if expected.ends_with(".process_died") && args[1] == "replay" {
                // The plan is expected to kill the process that executes it: run it in a child.
                let outcome = execute_in_child(&plan, &mut stats);
                let expected_prop = j.get("expected").and_then(|e| e.get("property")).and_then(|x| x.as_str()).unwrap_or("C05").to_string();
                match outcome.violations.iter().find(|v| v.inv.ends_with(".process_died")) {
                    Some(v) => {
                        println!("replay world={} ops={}: {}", plan.world, plan.ops.len(), v.detail);
                        println!("VIOLATION property={} replay={}", expected_prop, args[2]);
                        std::process::exit(1);
                    }
                    None => {
                        println!("no violation (the process survived)");
                        std::process::exit(0);
                    }
                }
            }
            let outcome = w.execute(&plan, &mut stats);
            println!("replay world={} ops={} log_hash={:016x}", plan.world, plan.ops.len(), outcome.log_hash);
            if outcome.violations.is_empty() {
                println!("no violation");
                std::process::exit(0);
            }
            for v in &outcome.violations {
                println!("  invariant {} after op {}: {}", v.inv, v.at_op as i64, v.detail);
            }
            let v = outcome
                .violations
                .iter()
                .find(|v| v.inv == expected)
                .unwrap_or(&outcome.violations[0]);
            if !expected.is_empty() && expected != v.inv {
                println!("  (replay file expected invariant {})", expected);
            }
            println!("VIOLATION property={} replay={}", v.prop, args[2]);
            std::process::exit(1);
        }
        "selftest" => {
            let n: u64 = args.get(2).and_then(|s| s.parse().ok()).unwrap_or(400);
            std::process::exit(selftest(n));
        }
        "calibrate" => {
            println!("arena_regular_chunk = {} arena_large_granule = {}", w_codec::arena_regular_chunk(), w_codec::arena_large_granule());
        }
        "plan" => {
            // plan <world> <prop> <seed> <index>: print the generated plan
            let w = world(&args[2]);
            let ask = Ask { prop: prop_static(&args[3]), thorough: false, tiny: false };
            let plan = w.generate(args[4].parse().unwrap(), args[5].parse().unwrap(), ask);
            println!("{}", J::obj().with("plan", plan.to_json()).pretty());
        }
        "hashes" => {
            // hashes <world> <prop> <seed> <from> <to>: per-run log hashes (determinism protocol)
            install_panic_hook();
            let w = world(&args[2]);
            let ask = Ask {
                prop: prop_static(&args[3]),
                thorough: false,
                tiny: std::env::var("VERIF_TINY").is_ok(),
            };
            let seed: u64 = args[4].parse().unwrap();
            let from: u64 = args[5].parse().unwrap();
            let to: u64 = args[6].parse().unwrap();
            let mut stats = Stats::default();
            for i in from..to {
                let plan = w.generate(seed, i, ask);
                let o = execute_world(w, &plan, &mut stats);
                println!("{} {:016x} {}", i, o.log_hash, o.violations.iter().map(|v| v.inv.clone()).collect::<Vec<_>>().join(","));
            }
        }
        other => {
            eprintln!("harness: unknown command {}", other);
            std::process::exit(2);
        }
    }
}
