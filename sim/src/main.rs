//! Deterministic simulation with fault injection for pkhuong/woodpile.
//! See /verif/DESIGN.md.
mod driver;
mod json;
mod minimise;
mod plan;
mod prng;
mod simio;
mod refcodec;
mod w_codec;
mod w_iovec;
mod w_stream;
mod w_threads;
mod w_vtime;

use std::path::Path;

use driver::*;
use json::J;
use plan::*;

pub const PROPS: &[&str] = &[
    "C01", "C02", "C03", "C04", "C05", "C06", "C07", "C08", "C09", "C10", "C13", "C14", "C17",
    "C18", "C19", "C20",
];

pub static WORLDS: &[&'static dyn World] = &[&w_iovec::IovecWorld, &w_codec::CodecWorld, &w_codec::LongWorld, &w_stream::StreamWorld, &w_threads::ThreadsWorld, &w_vtime::VtimeWorld];

const DEFAULT_SEED: u64 = 20261004;

/// Property blamed when a worker process of this world dies outright
/// (abort, signal, sanitizer report): a memory-safety failure.
pub fn crash_property(world: &str) -> &'static str {
    match world {
        "threads" => "C13",
        "vtime" => "C19",
        _ => "C05",
    }
}

fn world(name: &str) -> &'static dyn World {
    WORLDS
        .iter()
        .find(|w| w.name() == name)
        .copied()
        .unwrap_or_else(|| {
            eprintln!("harness: unknown world {}", name);
            std::process::exit(2)
        })
}

fn prop_static(name: &str) -> &'static str {
    PROPS.iter().find(|p| **p == name).copied().unwrap_or_else(|| {
        eprintln!("harness: unknown or unclaimed property {}", name);
        std::process::exit(2)
    })
}

fn jobs_for(prop: &'static str, thorough: bool, scale: f64) -> (Vec<Job>, &'static str) {
    let ask = Ask { prop, thorough };
    let mk = |w: &str, share: f64| {
        let world = world(w);
        Job {
            world,
            ask,
            runs: ((world.runs(ask) as f64) * share * scale).max(1.0) as u64,
        }
    };
    match prop {
        "C03" | "C04" | "C20" => (vec![mk("iovec", 1.0)], "exploration"),
        "C01" | "C02" | "C07" => (vec![mk("codec", 1.0)], "exploration"),
        "C09" => (vec![mk("codec", 1.0), mk("longrun", 1.0)], "exploration"),
        "C06" | "C08" => (vec![mk("stream", 1.0)], "exploration"),
        "C13" => (vec![mk("threads", 1.0)], "exploration"),
        "C18" => (vec![mk("threads", 1.0)], "fault_enumeration"),
        "C14" | "C19" => (vec![mk("vtime", 1.0)], "exploration"),
        "C05" => (vec![mk("iovec", 0.7), mk("codec", 0.6), mk("stream", 0.4)], "exploration"),
        "C10" => (vec![mk("iovec", 0.5), mk("codec", 0.4), mk("stream", 0.3), mk("longrun", 1.0)], "exploration"),
        "C17" => (vec![mk("iovec", 0.6), mk("codec", 0.6)], "exploration"),
        _ => {
            eprintln!("harness: no jobs for {}", prop);
            std::process::exit(2)
        }
    }
}

fn env_u64(name: &str) -> Option<u64> {
    std::env::var(name).ok().and_then(|s| s.trim().parse().ok())
}

fn main() {
    let args: Vec<String> = std::env::args().collect();
    if args.len() < 2 {
        eprintln!("usage: simw check <prop> <quick|thorough> | replay <file> | worker ... | selftest");
        std::process::exit(2);
    }
    match args[1].as_str() {
        "worker" => {
            // worker <world> <prop> <tier> <seed> <from> <to> <out>
            let w = world(&args[2]);
            let ask = Ask {
                prop: prop_static(&args[3]),
                thorough: args[4] == "thorough",
            };
            let seed: u64 = args[5].parse().unwrap();
            let from: u64 = args[6].parse().unwrap();
            let to: u64 = args[7].parse().unwrap();
            worker_main(w, ask, seed, from, to, Path::new(&args[8]), 3);
        }
        "exec1" => exec1_main(),
        "check" => {
            let prop = prop_static(&args[2]);
            let thorough = args.get(3).map(|s| s == "thorough").unwrap_or(false)
                || std::env::var("VERIF_TIER").map(|t| t == "thorough").unwrap_or(false);
            let seed = env_u64("VERIF_SEED").unwrap_or(DEFAULT_SEED);
            let workers = env_u64("VERIF_WORKERS").unwrap_or(16) as usize;
            let scale = std::env::var("VERIF_SCALE")
                .ok()
                .and_then(|s| s.parse::<f64>().ok())
                .unwrap_or(1.0);
            let (jobs, level) = jobs_for(prop, thorough, scale);
            let report = run_check(prop, thorough, seed, workers, jobs, level, None);
            std::process::exit(report.exit);
        }
        "replay" => {
            install_panic_hook();
            let text = std::fs::read_to_string(&args[2]).unwrap_or_else(|e| {
                eprintln!("harness: cannot read {}: {}", args[2], e);
                std::process::exit(2)
            });
            let j = J::parse(&text).unwrap_or_else(|e| {
                eprintln!("harness: bad replay file: {}", e);
                std::process::exit(2)
            });
            let plan = Plan::from_json(j.get("plan").unwrap_or(&j), WORLDS).unwrap_or_else(|e| {
                eprintln!("harness: bad plan: {}", e);
                std::process::exit(2)
            });
            let expected = j
                .get("expected")
                .and_then(|e| e.get("invariant"))
                .and_then(|x| x.as_str())
                .unwrap_or("")
                .to_string();
            let w = world(plan.world);
            let mut stats = Stats::default();
            let outcome = w.execute(&plan, &mut stats);
            println!("replay world={} ops={} log_hash={:016x}", plan.world, plan.ops.len(), outcome.log_hash);
            if outcome.violations.is_empty() {
                println!("no violation");
                std::process::exit(0);
            }
            for v in &outcome.violations {
                println!("  invariant {} after op {}: {}", v.inv, v.at_op as i64, v.detail);
            }
            let v = outcome
                .violations
                .iter()
                .find(|v| v.inv == expected)
                .unwrap_or(&outcome.violations[0]);
            if !expected.is_empty() && expected != v.inv {
                println!("  (replay file expected invariant {})", expected);
            }
            println!("VIOLATION property={} replay={}", v.prop, args[2]);
            std::process::exit(1);
        }
        "hashes" => {
            // hashes <world> <prop> <seed> <from> <to>: per-run log hashes (determinism protocol)
            install_panic_hook();
            let w = world(&args[2]);
            let ask = Ask {
                prop: prop_static(&args[3]),
                thorough: false,
            };
            let seed: u64 = args[4].parse().unwrap();
            let from: u64 = args[5].parse().unwrap();
            let to: u64 = args[6].parse().unwrap();
            let mut stats = Stats::default();
            for i in from..to {
                let plan = w.generate(seed, i, ask);
                let o = w.execute(&plan, &mut stats);
                println!("{} {:016x} {}", i, o.log_hash, o.violations.iter().map(|v| v.inv.clone()).collect::<Vec<_>>().join(","));
            }
        }
        other => {
            eprintln!("harness: unknown command {}", other);
            std::process::exit(2);
        }
    }
}
