//! Allocator seam: freed heap blocks of at least one page are parked in a
//! FIFO quarantine before they go back to the system allocator.
//!
//! Why: the memory oracle decides "this slice points into a released arena
//! chunk" by address (registry of live chunks, hook H1).  If the allocator
//! hands a released chunk's address range to the next chunk, the dangling
//! slice looks alive again - and whether that happens depends on what the
//! process executed before, so a violation found in a batch would not
//! reproduce when its plan is replayed alone.  With the quarantine an address
//! range is not reused until far more memory than one run ever frees
//! (8192 blocks / 96 MiB) has been freed after it, so within a run "address
//! inside a live chunk" is the same as "memory still owned by that chunk",
//! on every execution.  Parked memory stays mapped and is overwritten with a
//! poison byte, so an oracle that looks at a stale slice reads poison - never
//! the old contents, never another object's data - instead of crashing.
//!
//! Off under Miri (which tracks allocations itself) and in the
//! AddressSanitizer build (`--cfg simw_no_quarantine`: ASan has its own
//! quarantine and must see every free).
use std::alloc::{GlobalAlloc, Layout, System};
use std::cell::UnsafeCell;
use std::sync::atomic::{AtomicBool, Ordering};

const SLOTS: usize = 8192;
const MAX_BYTES: usize = 96 << 20;
const MIN_BLOCK: usize = 4096;
const MAX_BLOCK: usize = 8 << 20;
const POISON: u8 = 0xDE;

struct Ring {
    head: usize,
    len: usize,
    bytes: usize,
    slots: [(usize, usize, usize); SLOTS],
}

pub struct Quarantine {
    lock: AtomicBool,
    ring: UnsafeCell<Ring>,
}

unsafe impl Sync for Quarantine {}

impl Quarantine {
    pub const fn new() -> Self {
        Quarantine {
            lock: AtomicBool::new(false),
            ring: UnsafeCell::new(Ring { head: 0, len: 0, bytes: 0, slots: [(0, 0, 0); SLOTS] }),
        }
    }

    fn parks(layout: &Layout) -> bool {
        !cfg!(miri) && !cfg!(simw_no_quarantine) && layout.size() >= MIN_BLOCK && layout.size() <= MAX_BLOCK
    }
}

unsafe impl GlobalAlloc for Quarantine {
    unsafe fn alloc(&self, layout: Layout) -> *mut u8 {
        System.alloc(layout)
    }

    unsafe fn alloc_zeroed(&self, layout: Layout) -> *mut u8 {
        System.alloc_zeroed(layout)
    }

    unsafe fn realloc(&self, ptr: *mut u8, layout: Layout, new_size: usize) -> *mut u8 {
        if !Self::parks(&layout) {
            return System.realloc(ptr, layout, new_size);
        }
        let new_layout = Layout::from_size_align_unchecked(new_size, layout.align());
        let new_ptr = System.alloc(new_layout);
        if !new_ptr.is_null() {
            std::ptr::copy_nonoverlapping(ptr, new_ptr, layout.size().min(new_size));
            self.dealloc(ptr, layout);
        }
        new_ptr
    }

    unsafe fn dealloc(&self, ptr: *mut u8, layout: Layout) {
        if !Self::parks(&layout) {
            return System.dealloc(ptr, layout);
        }
        // Poisoned, so that a read through a stale pointer cannot return what
        // used to be there (and returns the same thing on every execution).
        std::ptr::write_bytes(ptr, POISON, layout.size());
        let mut pushed = false;
        while !pushed {
            // Blocks leave in batches, freed outside the lock.
            let mut out = [(0usize, 0usize, 0usize); 32];
            let mut n_out = 0;
            while self.lock.compare_exchange_weak(false, true, Ordering::Acquire, Ordering::Relaxed).is_err() {
                std::hint::spin_loop();
            }
            {
                let ring = &mut *self.ring.get();
                while n_out < out.len() && ring.len > 0 && (ring.len == SLOTS || ring.bytes + layout.size() > MAX_BYTES) {
                    let e = ring.slots[ring.head];
                    ring.head = (ring.head + 1) % SLOTS;
                    ring.len -= 1;
                    ring.bytes -= e.1;
                    out[n_out] = e;
                    n_out += 1;
                }
                if ring.len < SLOTS && (ring.len == 0 || ring.bytes + layout.size() <= MAX_BYTES) {
                    let tail = (ring.head + ring.len) % SLOTS;
                    ring.slots[tail] = (ptr as usize, layout.size(), layout.align());
                    ring.len += 1;
                    ring.bytes += layout.size();
                    pushed = true;
                }
            }
            self.lock.store(false, Ordering::Release);
            for e in &out[..n_out] {
                System.dealloc(e.0 as *mut u8, Layout::from_size_align_unchecked(e.1, e.2));
            }
        }
    }
}
