//! Delta-debugging minimiser over plans.  A candidate is kept only if the
//! same invariant id still fires.
use std::time::Duration;
use std::time::Instant;

use crate::plan::*;

pub struct MinResult {
    pub plan: Plan,
    pub violation: Violation,
    pub executions: u64,
}

/// `oracle(plan)` returns the violation the plan produces, if any.
pub fn minimise(
    plan: &Plan,
    first: Violation,
    mut oracle: impl FnMut(&Plan) -> Vec<Violation>,
    budget: Duration,
    max_exec: u64,
) -> MinResult {
    let start = Instant::now();
    let mut best = plan.clone();
    let mut best_v = first;
    let mut executions = 0u64;
    let target = best_v.inv.clone();

    let mut attempt = |cand: &Plan, executions: &mut u64| -> Option<Violation> {
        if *executions >= max_exec || start.elapsed() > budget {
            return None;
        }
        *executions += 1;
        oracle(cand).into_iter().find(|v| v.inv == target)
    };

    // 0. Truncate after the failing operation.
    if best_v.at_op != usize::MAX && best_v.at_op + 1 < best.ops.len() {
        let mut cand = best.clone();
        cand.ops.truncate(best_v.at_op + 1);
        if let Some(v) = attempt(&cand, &mut executions) {
            best = cand;
            best_v = v;
        }
    }

    // 1. Drop ranges of operations (ddmin), then single operations.
    let mut chunk = (best.ops.len() / 2).max(1);
    while chunk >= 1 {
        let mut i = 0;
        let mut progress = false;
        while i < best.ops.len() {
            let end = (i + chunk).min(best.ops.len());
            let mut cand = best.clone();
            cand.ops.drain(i..end);
            if let Some(v) = attempt(&cand, &mut executions) {
                best = cand;
                best_v = v;
                progress = true;
            } else {
                i = end;
            }
        }
        if chunk == 1 && !progress {
            break;
        }
        if !progress || chunk > best.ops.len() {
            chunk /= 2;
        }
        if executions >= max_exec || start.elapsed() > budget {
            break;
        }
    }

    // 2. Shrink numeric arguments (to 0, then halving), and knobs.
    let mut changed = true;
    let mut rounds = 0;
    while changed && rounds < 4 {
        changed = false;
        rounds += 1;
        for i in 0..best.ops.len() {
            for j in 0..4 {
                let cur = best.ops[i].a[j];
                if cur == 0 {
                    continue;
                }
                let mut tries = vec![0u64, 1, cur / 2, cur - 1];
                tries.dedup();
                for t in tries {
                    if t >= cur {
                        continue;
                    }
                    let mut cand = best.clone();
                    cand.ops[i].a[j] = t;
                    if let Some(v) = attempt(&cand, &mut executions) {
                        best = cand;
                        best_v = v;
                        changed = true;
                        break;
                    }
                }
            }
        }
        let names: Vec<String> = best.knobs.keys().cloned().collect();
        for name in names {
            let cur = best.knobs[&name];
            if cur == 0 || name.starts_with("keep_") {
                continue;
            }
            for t in [0u64, cur / 2] {
                if t >= cur {
                    continue;
                }
                let mut cand = best.clone();
                cand.knobs.insert(name.clone(), t);
                if let Some(v) = attempt(&cand, &mut executions) {
                    best = cand;
                    best_v = v;
                    changed = true;
                    break;
                }
            }
        }
        if executions >= max_exec || start.elapsed() > budget {
            break;
        }
    }

    MinResult {
        plan: best,
        violation: best_v,
        executions,
    }
}
