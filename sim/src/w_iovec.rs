//! World P/iovec: `OwningIovec` as an in-memory pipe between a producer and
//! a consumer, with arena and lifecycle operations interleaved by the plan,
//! against a shadow byte pipe with marked placeholders.
//!
//! Serves C03, C04, C05, C10, C17, C20.
use std::collections::VecDeque;
use std::io::IoSlice;
use std::io::Read;
use std::num::NonZeroUsize;
use std::panic::AssertUnwindSafe;

use owning_iovec::AnchoredSlice;
use owning_iovec::Backref;
use owning_iovec::ByteArena;
use owning_iovec::OwningIovec;
use owning_iovec::ZeroCopySink;

use crate::plan::*;
use crate::prng::LogHash;
use crate::prng::Rng;
use crate::simio::*;

pub struct IovecWorld;

const N_OBJ: usize = 3;
const N_SPARE: usize = 2;
const N_HELD: usize = 4;
const HOLE: u32 = 0x1_0000;

pub const KINDS: &[&str] = &[
    "push",
    "push_borrowed",
    "push_copy",
    "push_copy_rem",
    "sink_borrow",
    "sink_copy",
    "extend",
    "read_n",
    "held_skip",
    "held_dropsuf",
    "held_split",
    "held_clone",
    "held_take",
    "held_drop",
    "push_held",
    "register",
    "backfill",
    "clear",
    "take",
    "clone",
    "new",
    "drop",
    "flush",
    "ensure",
    "take_arena",
    "swap_arena",
    "swap_between",
    "drop_spare",
    "consume",
    "advance",
    "pop",
    "read",
    "stable",
    "alloc_fail",
    "register_rem",
    "badfill",
];

struct Obj {
    iov: OwningIovec<'static>,
    /// Unconsumed cells of the shadow pipe: a byte, or `HOLE | id`.
    cells: VecDeque<u32>,
    tokens: Vec<(u32, Backref)>,
    /// Holes that can never be filled (clone taken while holes were pending).
    dead_holes: bool,
    appended: u64,
    consumed: u64,
}

impl Obj {
    fn new(iov: OwningIovec<'static>) -> Obj {
        Obj {
            iov,
            cells: VecDeque::new(),
            tokens: Vec::new(),
            dead_holes: false,
            appended: 0,
            consumed: 0,
        }
    }

    fn append(&mut self, bytes: &[u8]) {
        self.cells.extend(bytes.iter().map(|b| *b as u32));
        self.appended += bytes.len() as u64;
    }

    fn first_hole(&self) -> Option<usize> {
        self.cells.iter().position(|c| *c >= HOLE)
    }
}

struct Held {
    s: AnchoredSlice,
    expect: Vec<u8>,
}

struct State {
    objs: Vec<Option<Obj>>,
    spares: Vec<Option<ByteArena>>,
    held: Vec<Option<Held>>,
    next_hole: u32,
}

struct Fail {
    prop: &'static str,
    inv: &'static str,
    detail: String,
}

fn fail(prop: &'static str, inv: &'static str, detail: String) -> Fail {
    Fail { prop, inv, detail }
}

/// Normalised (address free) location of a slice, or `None` if it is in
/// neither the pool nor a live arena chunk.
fn locate(ptr: *const u8, len: usize) -> Option<(u64, u64)> {
    if let Some(off) = pool_locate(ptr, len) {
        return Some((u64::MAX, off as u64));
    }
    owning_iovec::verif::locate(ptr, len).map(|(idx, off, _)| (idx, off as u64))
}

fn parts(off: u64, len: u64, n: u64) -> Vec<&'static [u8]> {
    let whole = pool_slice(off, len);
    let n = (n % 5) as usize;
    if n <= 1 || whole.len() < 2 {
        return vec![whole];
    }
    let mut out = Vec::new();
    let step = (whole.len() / n).max(1);
    let mut rest = whole;
    for i in 0..n {
        // Empty pieces in the middle are part of the point (they are skipped).
        let cut = if i == 1 { 0 } else { step.min(rest.len()) };
        let (a, b) = rest.split_at(cut);
        out.push(a);
        rest = b;
    }
    out.push(rest);
    out
}

impl State {
    fn new() -> State {
        State {
            objs: (0..N_OBJ).map(|_| None).collect(),
            spares: (0..N_SPARE).map(|_| None).collect(),
            held: (0..N_HELD).map(|_| None).collect(),
            next_hole: 0,
        }
    }

    /// Full comparison of one object against its shadow.  `target` says
    /// whether the operation just executed was aimed at this object.
    fn check_obj(
        &self,
        idx: usize,
        kind: &str,
        target: bool,
        log: &mut LogHash,
        stats: &mut Stats,
    ) -> Result<(), Fail> {
        let obj = self.objs[idx].as_ref().unwrap();
        let iov = &obj.iov;
        let content_tag: (&'static str, &'static str) = if !target {
            ("C20", "C20.sibling_changed")
        } else if matches!(kind, "register" | "backfill" | "register_rem" | "badfill") {
            ("C04", "C04.content")
        } else if kind == "clone" || kind == "take" {
            ("C20", "C20.content")
        } else {
            ("C03", "C03.content")
        };

        let sp = iov.stable_prefix();
        let first_hole = obj.first_hole();
        let limit = first_hole.unwrap_or(obj.cells.len());
        let mut pos = 0usize;
        let mut cell_iter = obj.cells.iter();
        for (si, slice) in sp.iter().enumerate() {
            if slice.is_empty() {
                return Err(fail(
                    "C03",
                    "C03.empty_slice",
                    format!("obj {} slice {} is empty", idx, si),
                ));
            }
            match locate(slice.as_ptr(), slice.len()) {
                Some(loc) => {
                    if si == 0 {
                        log.u64(norm_chunk(loc.0));
                        log.u64(loc.1);
                    }
                }
                None => {
                    return Err(fail(
                        "C05",
                        "C05.dangling",
                        format!(
                            "obj {} slice {} (len {}) is in neither the pool nor a live chunk",
                            idx,
                            si,
                            slice.len()
                        ),
                    ))
                }
            }
            for b in slice.iter() {
                if pos >= limit {
                    return Err(fail(
                        "C04",
                        "C04.hole_visible",
                        format!(
                            "obj {} exposes stream offset {} but the earliest pending placeholder is at {} (of {})",
                            idx, pos, limit, obj.cells.len()
                        ),
                    ));
                }
                let want = *cell_iter.next().expect("harness: pos < limit <= cells.len()");
                if want != *b as u32 {
                    return Err(fail(
                        content_tag.0,
                        content_tag.1,
                        format!(
                            "obj {} offset {} (consumed {}): got {:02x}, shadow {:02x}",
                            idx, pos, obj.consumed, b, want
                        ),
                    ));
                }
                pos += 1;
            }
        }

        let pending = first_hole.is_some();
        if !pending && pos != obj.cells.len() {
            let tag = if kind == "backfill" {
                ("C04", "C04.not_unblocked")
            } else {
                (content_tag.0, "C03.content_short")
            };
            return Err(fail(
                tag.0,
                if tag.0 == "C20" { content_tag.1 } else { tag.1 },
                format!(
                    "obj {}: no placeholder pending but only {} of {} bytes visible",
                    idx,
                    pos,
                    obj.cells.len()
                ),
            ));
        }

        if iov.total_size() != obj.cells.len() {
            return Err(fail(
                "C03",
                "C03.total_size",
                format!(
                    "obj {}: total_size {} != appended {} - consumed {}",
                    idx,
                    iov.total_size(),
                    obj.appended,
                    obj.consumed
                ),
            ));
        }
        if iov.is_empty() != (iov.len() == 0)
            || iov.len() < sp.len()
            || (iov.len() == 0) != (obj.cells.is_empty())
        {
            return Err(fail(
                "C03",
                "C03.len",
                format!(
                    "obj {}: len {} stable {} is_empty {} shadow {}",
                    idx,
                    iov.len(),
                    sp.len(),
                    iov.is_empty(),
                    obj.cells.len()
                ),
            ));
        }
        match (iov.front(), sp.first()) {
            (None, None) => {}
            (Some(a), Some(b)) if a.as_ptr() == b.as_ptr() && a.len() == b.len() => {}
            _ => {
                return Err(fail(
                    "C03",
                    "C03.front",
                    format!("obj {}: front() is not the first stable slice", idx),
                ))
            }
        }
        if iov.into_iter().count() != sp.len() {
            return Err(fail(
                "C03",
                "C03.iter",
                format!("obj {}: iteration differs from stable_prefix", idx),
            ));
        }
        if iov.has_pending_backrefs() != pending {
            return Err(fail(
                "C04",
                "C04.ok_iff_no_pending",
                format!(
                    "obj {}: has_pending_backrefs {} but shadow pending {}",
                    idx,
                    iov.has_pending_backrefs(),
                    pending
                ),
            ));
        }
        let iovs_ok = iov.iovs().is_ok();
        let (flat_ok, flat) = match iov.flatten() {
            Ok(v) => (true, v),
            Err(v) => (false, v),
        };
        if iovs_ok == pending || flat_ok == pending {
            return Err(fail(
                "C04",
                "C04.ok_iff_no_pending",
                format!(
                    "obj {}: iovs ok {} flatten ok {} while pending {}",
                    idx, iovs_ok, flat_ok, pending
                ),
            ));
        }
        if flat.len() != pos {
            return Err(fail(
                "C03",
                "C03.flatten",
                format!(
                    "obj {}: flatten has {} bytes, stable prefix has {}",
                    idx,
                    flat.len(),
                    pos
                ),
            ));
        }
        for (i, (b, c)) in flat.iter().zip(obj.cells.iter()).enumerate() {
            if *c != *b as u32 {
                return Err(fail(
                    content_tag.0,
                    content_tag.1,
                    format!("obj {} flatten offset {} differs", idx, i),
                ));
            }
        }

        log.u64(iov.total_size() as u64);
        log.u64(iov.len() as u64);
        log.u64(sp.len() as u64);
        log.u64(pos as u64);
        let mut sig = LogHash::new();
        sig.u64(idx as u64);
        sig.u64(iov.len().min(9) as u64);
        sig.u64(sp.len().min(9) as u64);
        sig.u64(obj.tokens.len() as u64);
        sig.u64(64 - (iov.total_size() as u64).leading_zeros() as u64);
        sig.u64((obj.consumed > 0) as u64);
        stats.state(sig.0);
        Ok(())
    }

    fn check_held(&self, log: &mut LogHash) -> Result<(), Fail> {
        for (i, h) in self.held.iter().enumerate() {
            let Some(h) = h else { continue };
            let s = h.s.slice();
            if !s.is_empty() {
                match owning_iovec::verif::locate(s.as_ptr(), s.len()) {
                    Some((idx, off, _)) => {
                        log.u64(norm_chunk(idx));
                        log.u64(off as u64);
                    }
                    None => {
                        return Err(fail(
                            "C05",
                            "C05.held_dangling",
                            format!("held slice {} (len {}) is not in a live chunk", i, s.len()),
                        ))
                    }
                }
            }
            if s != &h.expect[..] {
                return Err(fail(
                    "C05",
                    "C05.held_content",
                    format!(
                        "held slice {} changed: len {} vs expected {}",
                        i,
                        s.len(),
                        h.expect.len()
                    ),
                ));
            }
        }
        Ok(())
    }

    fn free_held(&mut self, hint: u64) -> usize {
        self.held
            .iter()
            .position(|h| h.is_none())
            .unwrap_or((hint as usize) % N_HELD)
    }
}

fn ret_check(
    what: &'static str,
    got: usize,
    want: usize,
    idx: usize,
    pending: bool,
) -> Result<(), Fail> {
    if got > want && pending {
        // Consumption went past the stable prefix while a placeholder is
        // pending: the consumer was handed a pending placeholder or bytes
        // that follow one.
        Err(fail(
            "C04",
            "C04.consumed_past_placeholder",
            format!(
                "obj {}: {} removed {} but only {} were consumable before the earliest pending placeholder",
                idx, what, got, want
            ),
        ))
    } else if got != want {
        Err(fail(
            "C03",
            "C03.ret",
            format!("obj {}: {} returned {}, shadow says {}", idx, what, got, want),
        ))
    } else {
        Ok(())
    }
}

/// Number of stable bytes / slices according to the real object (the shadow
/// does not know slice boundaries).
fn stable_bytes(iov: &OwningIovec<'_>) -> usize {
    iov.stable_prefix().iter().map(|s| s.len()).sum()
}

/// Executes a `read_n` against `arena` under the scripted reader and checks
/// it against the reference loop.  Returns the slice on success.
pub fn checked_read_n(
    arena: &mut ByteArena,
    src: &'static [u8],
    count: usize,
    attempts: usize,
    script_seed: u64,
    hard: bool,
    stats: &mut Stats,
    log: &mut LogHash,
) -> Result<Option<Held>, Fail> {
    let (script, tail_eof) = script_from(script_seed, hard);
    let mut reader = SimReader::new(src, script.clone(), tail_eof);
    let got = arena.read_n(&mut reader, count, NonZeroUsize::new(attempts).unwrap());
    let want = ref_read_n_traced(src.len(), &script, tail_eof, count, attempts, &reader.offered);
    for (i, name) in ["short_read", "full_read", "eintr", "eof", "hard_error"]
        .iter()
        .enumerate()
    {
        if reader.fired[i] > 0 {
            stats.add(&format!("fault.{}", name), reader.fired[i]);
        }
    }
    log.u64(reader.offered.len() as u64);
    if reader.offered != want.offered {
        return Err(fail(
            "C17",
            "C17.calls",
            format!(
                "read_n(count {}, attempts {}): reader was offered {:?}, reference says {:?}",
                count, attempts, reader.offered, want.offered
            ),
        ));
    }
    match (got, want.result) {
        (Ok(s), Ok(n)) => {
            if s.slice() != &src[..n] {
                return Err(fail(
                    "C17",
                    "C17.bytes",
                    format!(
                        "read_n returned {} bytes, reference {} (or different content)",
                        s.slice().len(),
                        n
                    ),
                ));
            }
            log.u64(n as u64);
            if n < count {
                stats.bump("probe.read_n_released_remainder");
            }
            Ok(Some(Held {
                expect: s.slice().to_vec(),
                s,
            }))
        }
        (Err(e), Err(kind)) => {
            if e.kind() != kind {
                return Err(fail(
                    "C17",
                    "C17.error_kind",
                    format!("read_n failed with {:?}, reference {:?}", e.kind(), kind),
                ));
            }
            log.u64(u64::MAX);
            stats.bump("probe.read_n_failed");
            Ok(None)
        }
        (Ok(s), Err(kind)) => Err(fail(
            "C17",
            "C17.result",
            format!(
                "read_n returned Ok({} bytes), reference Err({:?})",
                s.slice().len(),
                kind
            ),
        )),
        (Err(e), Ok(n)) => Err(fail(
            "C17",
            "C17.result",
            format!("read_n failed with {:?}, reference Ok({} bytes)", e.kind(), n),
        )),
    }
}

fn exec_op(
    st: &mut State,
    op: &Op,
    hard: bool,
    stats: &mut Stats,
    log: &mut LogHash,
) -> Result<Vec<usize>, Fail> {
    let a = op.a;
    let oi = (a[0] as usize) % N_OBJ;
    let mut targets = vec![oi];
    macro_rules! obj {
        () => {
            match st.objs[oi].as_mut() {
                Some(o) => o,
                None => {
                    stats.bump("noop");
                    return Ok(vec![]);
                }
            }
        };
    }
    match op.k {
        "push" | "push_borrowed" | "push_copy" | "sink_borrow" | "sink_copy" => {
            let o = obj!();
            let s = pool_slice(a[1], a[2]);
            let before = o.iov.len();
            match op.k {
                "push" => o.iov.push(s),
                "push_borrowed" => o.iov.push_borrowed(s),
                "push_copy" => o.iov.push_copy(s),
                "sink_borrow" => {
                    let sink: &mut dyn ZeroCopySink<'static> = &mut o.iov;
                    sink.append_borrow(s)
                }
                _ => {
                    let mut sink = &mut o.iov;
                    ZeroCopySink::append_copy(&mut sink, s)
                }
            }
            o.append(s);
            if !s.is_empty() && o.iov.len() == before && before > 0 {
                stats.bump("probe.merged_in_place");
            }
        }
        "push_copy_rem" => {
            let o = obj!();
            let rem = o.iov.arena().remaining() as u64;
            let len = (rem + a[2] % 5).saturating_sub(2).min(70_000);
            let s = pool_slice(a[1], len);
            let chunks_before = owning_iovec::verif::lifetime_totals().0;
            o.iov.push_copy(s);
            o.append(s);
            if owning_iovec::verif::lifetime_totals().0 != chunks_before {
                stats.bump("probe.arena_regrew");
            }
        }
        "extend" => {
            let o = obj!();
            let ps = parts(a[1], a[2], a[3]);
            o.iov.extend(ps.iter().map(|p| IoSlice::new(p)));
            for p in ps {
                o.append(p);
            }
        }
        "read_n" => {
            targets.clear();
            let sel = a[0] % 5;
            let count = a[1] as usize;
            let attempts = attempts_from(a[2]);
            let src = pool_slice(a[3].wrapping_mul(7919) % 900_000, 80_000);
            let arena: &mut ByteArena = if sel < 3 {
                match st.objs[sel as usize].as_mut() {
                    Some(o) => o.iov.arena(),
                    None => {
                        stats.bump("noop");
                        return Ok(vec![]);
                    }
                }
            } else {
                st.spares[(sel - 3) as usize].get_or_insert_with(ByteArena::new)
            };
            let got = checked_read_n(arena, src, count, attempts, a[3], hard, stats, log)?;
            if let Some(h) = got {
                let slot = st.free_held(a[3]);
                st.held[slot] = Some(h);
            }
        }
        "held_skip" | "held_dropsuf" => {
            targets.clear();
            let slot = (a[0] as usize) % N_HELD;
            if let Some(h) = st.held[slot].as_mut() {
                let n = a[1] as usize;
                let want = n.min(h.expect.len());
                let got = if op.k == "held_skip" {
                    h.expect.drain(..want);
                    h.s.skip_prefix(n)
                } else {
                    let keep = h.expect.len() - want;
                    h.expect.truncate(keep);
                    h.s.drop_suffix(n)
                };
                if got != want {
                    return Err(fail(
                        "C05",
                        "C05.held_ret",
                        format!("{} returned {}, expected {}", op.k, got, want),
                    ));
                }
            }
        }
        "held_split" => {
            targets.clear();
            let slot = (a[0] as usize) % N_HELD;
            if let Some(h) = st.held[slot].take() {
                let mid = a[1] as usize;
                let (l, r) = h.s.split_at(mid);
                let cut = mid.min(h.expect.len());
                let (le, re) = (h.expect[..cut].to_vec(), h.expect[cut..].to_vec());
                st.held[slot] = Some(Held { s: l, expect: le });
                let other = st.free_held(a[1]);
                if other != slot {
                    st.held[other] = Some(Held { s: r, expect: re });
                }
            }
        }
        "held_clone" | "held_take" => {
            targets.clear();
            let slot = (a[0] as usize) % N_HELD;
            let other = st.free_held(a[0] + 1);
            if other != slot {
                if let Some(h) = st.held[slot].as_mut() {
                    let new = if op.k == "held_clone" {
                        Held {
                            s: h.s.clone(),
                            expect: h.expect.clone(),
                        }
                    } else {
                        let taken = h.s.take();
                        Held {
                            s: taken,
                            expect: std::mem::take(&mut h.expect),
                        }
                    };
                    st.held[other] = Some(new);
                }
            }
        }
        "held_drop" => {
            targets.clear();
            st.held[(a[0] as usize) % N_HELD] = None;
        }
        "push_held" => {
            let slot = (a[1] as usize) % N_HELD;
            if st.objs[oi].is_none() {
                stats.bump("noop");
                return Ok(vec![]);
            }
            let Some(h) = st.held[slot].take() else {
                stats.bump("noop");
                return Ok(vec![]);
            };
            let o = st.objs[oi].as_mut().unwrap();
            // Exactly the sequence hcobs uses: slices first, then the anchor.
            let (_, slice, anchor) = unsafe { h.s.components() };
            if a[2] % 2 == 0 {
                o.iov.push(slice);
            } else {
                o.iov.push_borrowed(slice);
            }
            o.iov.push_anchor(anchor);
            o.append(&h.expect);
            stats.bump("probe.anchored_push");
        }
        "register" => {
            let o = obj!();
            if o.dead_holes {
                stats.bump("noop");
                return Ok(vec![]);
            }
            let len = (a[1] % 5) as usize;
            let pattern = [0xA5u8; 4];
            let token = o.iov.register_patch(&pattern[..len]);
            if token.len() != len || token.is_empty() != (len == 0) {
                return Err(fail(
                    "C04",
                    "C04.token_len",
                    format!("register_patch({}) gave a token of {}", len, token.len()),
                ));
            }
            let id = st.next_hole;
            st.next_hole += 1;
            for _ in 0..len {
                o.cells.push_back(HOLE | id);
            }
            o.appended += len as u64;
            o.tokens.push((id, token));
            if o.tokens.len() >= 3 {
                stats.bump("probe.three_plus_placeholders_in_flight");
            }
        }
        "backfill" => {
            let o = obj!();
            if o.tokens.is_empty() {
                stats.bump("noop");
                return Ok(vec![]);
            }
            let k = (a[1] as usize) % o.tokens.len();
            if k + 1 != o.tokens.len() || k > 0 {
                stats.bump("probe.backfill_out_of_order");
            }
            let (id, token) = o.tokens.remove(k);
            let len = token.len();
            let mut val = [0u8; 4];
            let mut r = Rng::new(a[2] ^ 0xbacf_111);
            for v in val.iter_mut() {
                *v = r.below(256) as u8;
            }
            o.iov.backfill_or_panic(token, &val[..len]);
            let mut i = 0;
            for c in o.cells.iter_mut() {
                if *c == (HOLE | id) {
                    *c = val[i] as u32;
                    i += 1;
                }
            }
            if i != len {
                // The shadow lost track: harness bug, not a property violation.
                panic!("harness: hole {} had {} cells, token {}", id, i, len);
            }
        }
        "clear" => {
            let o = obj!();
            o.iov.clear();
            o.cells.clear();
            o.tokens.clear();
            o.dead_holes = false;
            o.appended = 0;
            o.consumed = 0;
        }
        "take" | "clone" => {
            let di = (a[1] as usize) % N_OBJ;
            if di == oi || st.objs[oi].is_none() {
                stats.bump("noop");
                return Ok(vec![]);
            }
            // Whatever lived in the destination slot is dropped first.
            st.objs[di] = None;
            let o = st.objs[oi].as_mut().unwrap();
            let new = if op.k == "take" {
                let iov = o.iov.take();
                let mut n = Obj::new(iov);
                std::mem::swap(&mut n.cells, &mut o.cells);
                std::mem::swap(&mut n.tokens, &mut o.tokens);
                n.dead_holes = o.dead_holes;
                n.appended = o.appended;
                n.consumed = o.consumed;
                o.dead_holes = false;
                o.appended = 0;
                o.consumed = 0;
                n
            } else {
                let mut n = Obj::new(o.iov.clone());
                n.cells = o.cells.clone();
                n.appended = o.appended;
                n.consumed = o.consumed;
                n.dead_holes = o.first_hole().is_some();
                if n.dead_holes {
                    stats.bump("probe.clone_with_pending");
                }
                n
            };
            st.objs[di] = Some(new);
            targets.push(di);
        }
        "new" => {
            st.objs[oi] = None;
            let ps = parts(a[2], a[3], a[1] / 4);
            let iov = match a[1] % 4 {
                0 => OwningIovec::new(),
                1 => {
                    let arena = st.spares[(a[2] as usize) % N_SPARE].take();
                    OwningIovec::new_from_arena(arena.unwrap_or_default())
                }
                2 => {
                    let arena = st.spares[(a[2] as usize) % N_SPARE].take();
                    OwningIovec::new_from_slices(
                        ps.iter().map(|p| IoSlice::new(p)).collect(),
                        arena,
                    )
                }
                _ => ps.iter().map(|p| IoSlice::new(p)).collect(),
            };
            let mut o = Obj::new(iov);
            if a[1] % 4 >= 2 {
                for p in ps {
                    o.append(p);
                }
            }
            st.objs[oi] = Some(o);
        }
        "drop" => {
            st.objs[oi] = None;
        }
        "flush" => obj!().iov.arena().flush_cache(),
        "ensure" => {
            let n = (a[1] % 140_000) as usize;
            obj!().iov.arena().ensure_capacity(n)
        }
        "take_arena" => {
            let o = obj!();
            let arena = o.iov.consumer().take_arena();
            st.spares[(a[1] as usize) % N_SPARE] = Some(arena);
        }
        "swap_arena" => {
            let o = obj!();
            let slot = (a[1] as usize) % N_SPARE;
            let mine = st.spares[slot].take().unwrap_or_default();
            let theirs = o.iov.consumer().swap_arena(mine);
            st.spares[slot] = Some(theirs);
        }
        "swap_between" => {
            let di = (a[1] as usize) % N_OBJ;
            if di == oi || st.objs[oi].is_none() || st.objs[di].is_none() {
                stats.bump("noop");
                return Ok(vec![]);
            }
            let x = st.objs[oi].as_mut().unwrap().iov.consumer().take_arena();
            let y = st.objs[di].as_mut().unwrap().iov.consumer().swap_arena(x);
            let z = st.objs[oi].as_mut().unwrap().iov.consumer().swap_arena(y);
            drop(z);
            targets.push(di);
        }
        "drop_spare" => {
            targets.clear();
            st.spares[(a[0] as usize) % N_SPARE] = None;
        }
        "consume" => {
            let o = obj!();
            let n = a[1] as usize;
            let sp = o.iov.stable_prefix();
            let k = n.min(sp.len());
            let bytes: usize = sp[..k].iter().map(|s| s.len()).sum();
            let got = o.iov.consumer().consume(n);
            ret_check("consume", got, k, oi, o.first_hole().is_some())?;
            o.cells.drain(..bytes.min(o.cells.len()));
            o.consumed += bytes as u64;
        }
        "pop" => {
            let o = obj!();
            let Some(front) = o.iov.front() else {
                stats.bump("noop");
                return Ok(vec![]);
            };
            let bytes = front.len();
            o.iov.consumer().pop_front();
            o.cells.drain(..bytes.min(o.cells.len()));
            o.consumed += bytes as u64;
        }
        "advance" => {
            let o = obj!();
            let n = a[1] as usize;
            let stable = stable_bytes(&o.iov);
            let want = n.min(stable);
            let got = o.iov.consumer().advance_slices(n);
            ret_check("advance_slices", got, want, oi, o.first_hole().is_some())?;
            if want > 0 && want < stable {
                stats.bump("probe.partial_byte_consumption");
            }
            o.cells.drain(..want.min(o.cells.len()));
            o.consumed += want as u64;
        }
        "read" => {
            let o = obj!();
            let n = (a[1] as usize).min(100_000);
            let stable = stable_bytes(&o.iov);
            let want = n.min(stable);
            let mut buf = vec![0xEEu8; n];
            let got = o
                .iov
                .consumer()
                .read(&mut buf)
                .map_err(|e| fail("C03", "C03.read_err", format!("Read failed: {}", e)))?;
            ret_check("Read::read", got, want, oi, o.first_hole().is_some())?;
            for (i, b) in buf[..got].iter().enumerate() {
                if o.cells[i] != *b as u32 {
                    return Err(fail(
                        "C03",
                        "C03.read_bytes",
                        format!("obj {}: Read handed out a wrong byte at {}", oi, i),
                    ));
                }
            }
            o.cells.drain(..want.min(o.cells.len()));
            o.consumed += want as u64;
        }
        "stable" => {
            let o = obj!();
            let pending = o.first_hole().is_some();
            let total = o.cells.len();
            match o.iov.stable_consumer() {
                Ok(stable) => {
                    if pending {
                        return Err(fail(
                            "C04",
                            "C04.ok_iff_no_pending",
                            format!("obj {}: stable_consumer Ok while a placeholder is pending", oi),
                        ));
                    }
                    let flat = stable.flatten();
                    let n: usize = stable.iovs().iter().map(|s| s.len()).sum();
                    if flat.len() != total || n != total {
                        return Err(fail(
                            "C03",
                            "C03.flatten",
                            format!("obj {}: StableIovec has {} / {} bytes, shadow {}", oi, flat.len(), n, total),
                        ));
                    }
                }
                Err(_) => {
                    if !pending {
                        return Err(fail(
                            "C04",
                            "C04.ok_iff_no_pending",
                            format!("obj {}: stable_consumer Err with nothing pending", oi),
                        ));
                    }
                }
            }
        }
        "alloc_fail" => {
            // Fault: an allocation that cannot succeed (capacity overflow panics,
            // it does not abort).  The caller contains the panic and carries on.
            let o = obj!();
            let want = usize::MAX - (a[1] % 4096) as usize;
            let r = std::panic::catch_unwind(AssertUnwindSafe(|| o.iov.arena().ensure_capacity(want)));
            stats.bump(if r.is_err() { "fault.allocation_failure_contained" } else { "fault.allocation_failure_not_raised" });
        }
        "register_rem" => {
            // A placeholder registered when the current arena chunk has room for
            // only 0..6 more bytes (so the pattern may or may not fit).
            let o = obj!();
            if o.dead_holes {
                stats.bump("noop");
                return Ok(vec![]);
            }
            let rem = o.iov.arena().remaining();
            let left = (a[1] % 7) as usize;
            if rem > left && rem - left <= 70_000 {
                let s = pool_slice(a[3] % 500_000, (rem - left) as u64);
                o.iov.push_copy(s);
                o.append(s);
            }
            let len = 1 + (a[2] % 4) as usize;
            let pattern = [0xA5u8; 4];
            let token = o.iov.register_patch(&pattern[..len]);
            let id = st.next_hole;
            st.next_hole += 1;
            for _ in 0..len {
                o.cells.push_back(HOLE | id);
            }
            o.appended += len as u64;
            o.tokens.push((id, token));
            stats.bump("probe.placeholder_at_chunk_end");
        }
        "badfill" => {
            // Caller error: a backfill of the wrong size.  Documented to panic; the
            // placeholder then stays pending for ever (its token is gone).
            let o = obj!();
            if o.tokens.is_empty() {
                stats.bump("noop");
                return Ok(vec![]);
            }
            let k = (a[1] as usize) % o.tokens.len();
            if o.tokens[k].1.is_empty() {
                stats.bump("noop");
                return Ok(vec![]);
            }
            let (_id, token) = o.tokens.remove(k);
            let len = token.len();
            let src = vec![0x5Au8; if a[2] % 2 == 0 { len + 1 } else { len - 1 }];
            let r = std::panic::catch_unwind(AssertUnwindSafe(|| o.iov.backfill_or_panic(token, &src)));
            if r.is_ok() {
                return Err(fail("C04", "C04.badfill_accepted", format!("backfill_or_panic accepted {} bytes for a {}-byte placeholder", src.len(), len)));
            }
            o.dead_holes = true;
            stats.bump("fault.wrong_size_backfill_contained");
        }
        other => panic!("harness: unknown op kind {}", other),
    }
    Ok(targets)
}

fn panic_prop(kind: &str) -> &'static str {
    match kind {
        "register" | "backfill" | "register_rem" | "badfill" => "C04",
        "clone" | "take" => "C20",
        "read_n" => "C17",
        k if k.starts_with("held_") => "C05",
        _ => "C03",
    }
}

pub fn panic_message(e: &Box<dyn std::any::Any + Send>) -> String {
    if let Some(s) = e.downcast_ref::<&str>() {
        s.to_string()
    } else if let Some(s) = e.downcast_ref::<String>() {
        s.clone()
    } else {
        "non-string panic".to_string()
    }
}

impl World for IovecWorld {
    fn name(&self) -> &'static str {
        "iovec"
    }

    fn kinds(&self) -> &'static [&'static str] {
        KINDS
    }

    fn serves(&self) -> &'static [&'static str] {
        &["C03", "C04", "C05", "C10", "C17", "C20"]
    }

    fn runs(&self, ask: Ask) -> u64 {
        if ask.thorough {
            4_000_000
        } else {
            80_000
        }
    }

    fn components(&self) -> (Vec<&'static str>, Vec<&'static str>) {
        (
            vec![
                "owning_iovec (OwningIovec, ConsumingIovec, StableIovec, ByteArena, AnchoredSlice, GlobalDeque, AllocCache, Anchor)",
                "sliding_deque (SlidingVec, SortedDeque under OwningIovec)",
            ],
            vec![
                "std::io::Read argument of ByteArena::read_n (SimReader, scripted)",
                "caller buffers (process-wide immutable pool)",
            ],
        )
    }

    fn rule(&self) -> &'static str {
        "one run = one seeded plan of producer/consumer/arena/lifecycle operations over up to 3 iovecs, 2 spare arenas and 4 held anchored slices; non-trivial = at least 8 effective (non no-op) operations including both a producer and a consumer operation; distinct = distinct sequence of operation kinds"
    }

    fn generate(&self, seed: u64, index: u64, ask: Ask) -> Plan {
        let mut rng = Rng::new(crate::prng::mix(&[seed, 0x10fec, index]));
        let mut knobs = std::collections::BTreeMap::new();
        // Swarm: which families of operations are enabled in this run.
        let focus = ask.prop;
        let mut w = [0u64; 36];
        let on = |rng: &mut Rng, p: u64| -> u64 { rng.chance(p, 100) as u64 };
        let wt = |k: &str| KINDS.iter().position(|x| *x == k).unwrap();
        let producers = 10;
        for k in ["push", "push_borrowed", "push_copy"] {
            w[wt(k)] = producers * on(&mut rng, 85);
        }
        w[wt("push_copy_rem")] = 3 * on(&mut rng, 50);
        w[wt("sink_borrow")] = 2 * on(&mut rng, 40);
        w[wt("sink_copy")] = 2 * on(&mut rng, 40);
        w[wt("extend")] = 4 * on(&mut rng, 50);
        let anchored = on(&mut rng, if matches!(focus, "C05" | "C10" | "C17") { 90 } else { 55 });
        w[wt("read_n")] = if focus == "C17" { 30 } else { 8 } * anchored;
        for k in ["held_skip", "held_dropsuf", "held_split", "held_clone", "held_take", "held_drop"] {
            w[wt(k)] = 2 * anchored * on(&mut rng, 70);
        }
        w[wt("push_held")] = 8 * anchored;
        let holes = on(&mut rng, if focus == "C04" { 95 } else { 60 });
        w[wt("register")] = if focus == "C04" { 14 } else { 7 } * holes;
        w[wt("backfill")] = if focus == "C04" { 12 } else { 7 } * holes;
        w[wt("clear")] = on(&mut rng, 40);
        let cl = on(&mut rng, if matches!(focus, "C20" | "C05" | "C10") { 90 } else { 50 });
        w[wt("take")] = if focus == "C20" { 6 } else { 2 } * cl;
        w[wt("clone")] = if focus == "C20" { 8 } else { 3 } * cl;
        w[wt("new")] = 2 * on(&mut rng, 60);
        w[wt("drop")] = 2 * on(&mut rng, 50);
        let arena = on(&mut rng, 60);
        for k in ["flush", "ensure", "take_arena", "swap_arena", "swap_between", "drop_spare"] {
            w[wt(k)] = 2 * arena * on(&mut rng, 70);
        }
        let consumers = on(&mut rng, 92);
        w[wt("consume")] = 8 * consumers * on(&mut rng, 80);
        w[wt("advance")] = 9 * consumers * on(&mut rng, 80);
        w[wt("pop")] = 3 * consumers * on(&mut rng, 60);
        w[wt("read")] = 5 * consumers * on(&mut rng, 60);
        w[wt("stable")] = 2;
        w[wt("alloc_fail")] = on(&mut rng, 10);
        w[wt("register_rem")] = 2 * holes;
        w[wt("badfill")] = holes * on(&mut rng, 25);
        if w.iter().sum::<u64>() < 5 {
            w[wt("push_copy")] = 5;
            w[wt("advance")] = 5;
        }
        let hard = rng.chance(1, 2);
        knobs.insert("hard_errors".to_string(), hard as u64);
        let size_class = if ask.tiny { rng.below(2) } else { rng.below(4) }; // 0 tiny, 1 small, 2 medium, 3 large
        knobs.insert("size_class".to_string(), size_class);
        let nops = match if ask.tiny { 0 } else { rng.below(4) } {
            0 => rng.range(3, if ask.tiny { 20 } else { 12 }),
            1 => rng.range(12, 40),
            _ => rng.range(40, if ask.thorough { 160 } else { 90 }),
        };
        let bounds: &[u64] = match size_class {
            0 => &[0, 1, 2, 3],
            1 => &[0, 1, 63, 64, 65, 255, 256, 257],
            2 => &[0, 1, 64, 65, 256, 257, 1000, 4095, 4096, 4097],
            _ => &[64, 256, 257, 4096, 8192, 16384, 32768, 65536],
        };
        let max_len: u64 = match size_class {
            0 => 8,
            1 => 300,
            2 => 5000,
            _ => 70_000,
        };
        let mut ops = Vec::new();
        // Start with one or two objects.
        ops.push(Op::new("new", [0, rng.below(8), rng.below(1 << 20), rng.boundary_size(bounds, max_len.min(600))]));
        if rng.chance(1, 3) {
            ops.push(Op::new("new", [1, rng.below(8), rng.below(1 << 20), rng.below(200)]));
        }
        for _ in 0..nops {
            let k = KINDS[rng.weighted(&w)];
            let obj = if rng.chance(3, 4) { 0 } else { rng.below(N_OBJ as u64) };
            let off = rng.below((POOL_UNIFORM as u64).saturating_sub(80_000).max(1));
            let len = rng.boundary_size(bounds, max_len);
            let a = match k {
                "push" | "push_borrowed" | "push_copy" | "sink_borrow" | "sink_copy" => [obj, off, len, 0],
                "push_copy_rem" => [obj, off, rng.below(5), 0],
                "extend" => [obj, off, len, rng.below(5)],
                "read_n" => [
                    if rng.chance(2, 3) { obj } else { 3 + rng.below(2) },
                    if rng.chance(1, 40) {
                        // Around the largest arena chunk size.
                        *rng.pick(&[(1u64 << 20) - 1, 1 << 20, (1 << 20) + 1, 1 << 19, 1 << 21])
                    } else {
                        rng.boundary_size(bounds, max_len.min(20_000))
                    },
                    rng.below(6),
                    if rng.chance(1, 4) { 0 } else { rng.next() >> 1 },
                ],
                "held_skip" | "held_dropsuf" | "held_split" => [rng.below(4), rng.boundary_size(&[0, 1, 2], max_len.min(64)), 0, 0],
                "held_clone" | "held_take" | "held_drop" => [rng.below(4), 0, 0, 0],
                "push_held" => [obj, rng.below(4), rng.below(2), 0],
                "register" => [obj, rng.range(0, 4), 0, 0],
                "alloc_fail" => [obj, rng.below(4096), 0, 0],
                "register_rem" => [obj, rng.below(7), rng.below(4), off],
                "badfill" => [obj, rng.below(8), rng.below(2), 0],
                "backfill" => [obj, rng.below(8), rng.next() >> 1, 0],
                "clear" | "drop" | "flush" | "pop" | "stable" => [obj, 0, 0, 0],
                "take" | "clone" => [obj, rng.below(3), 0, 0],
                "new" => [rng.below(3), rng.below(8), off, rng.boundary_size(bounds, max_len.min(600))],
                "ensure" => [obj, rng.boundary_size(&[0, 1, 4096, 4097, 65536, 131072], 140_000), 0, 0],
                "take_arena" | "swap_arena" => [obj, rng.below(2), 0, 0],
                "swap_between" => [obj, rng.below(3), 0, 0],
                "drop_spare" => [rng.below(2), 0, 0, 0],
                "consume" => [obj, rng.boundary_size(&[0, 1, 2], 6), 0, 0],
                "advance" | "read" => [obj, rng.boundary_size(bounds, max_len * 2), 0, 0],
                _ => unreachable!(),
            };
            ops.push(Op::new(k, a));
        }
        Plan {
            world: "iovec",
            mode: "pipe".to_string(),
            seed,
            index,
            knobs,
            ops,
        }
    }

    fn execute(&self, plan: &Plan, stats: &mut Stats) -> Outcome {
        let mut log = LogHash::new();
        start_run_chunk_numbering();
        let hard = plan.knob("hard_errors") != 0;
        let base_chunks = ByteArena::num_live_chunks();
        let base_bytes = ByteArena::num_live_bytes();
        let base_reg = owning_iovec::verif::live_totals();
        let at = std::cell::Cell::new(0usize);
        let also: std::cell::RefCell<Vec<(usize, Fail)>> = Default::default();
        let mut effective = 0u64;
        let mut produced = false;
        let mut consumed = false;

        let result = std::panic::catch_unwind(AssertUnwindSafe(|| -> Result<(), (usize, Fail)> {
            let mut st = State::new();
            for (i, op) in plan.ops.iter().enumerate() {
                at.set(i);
                let noop_before = stats.counters.get("noop").copied().unwrap_or(0);
                let targets = exec_op(&mut st, op, hard, stats, &mut log).map_err(|f| (i, f))?;
                stats.ops_executed += 1;
                if stats.counters.get("noop").copied().unwrap_or(0) == noop_before {
                    effective += 1;
                    stats.bump(&format!("op.{}", op.k));
                    match op.k {
                        "consume" | "advance" | "pop" | "read" => consumed = true,
                        "push" | "push_borrowed" | "push_copy" | "extend" | "push_held"
                        | "register" | "sink_copy" | "sink_borrow" | "push_copy_rem" | "register_rem" => {
                            produced = true
                        }
                        _ => {}
                    }
                }
                log.str(op.k);
                for idx in 0..N_OBJ {
                    if st.objs[idx].is_some() {
                        let target = targets.contains(&idx);
                        st.check_obj(idx, op.k, target, &mut log, stats).map_err(|f| {
                            if f.inv == "C05.dangling" {
                                // Bytes buffered in released memory are not the bytes appended:
                                // the pipe is not faithful either (and the address check above
                                // runs before the content comparison would get to say so).
                                also.borrow_mut().push((i, Fail { prop: "C03", inv: "C03.bytes_in_released_memory", detail: f.detail.clone() }));
                                if matches!(op.k, "register" | "backfill" | "register_rem" | "badfill") {
                                    also.borrow_mut().push((i, Fail { prop: "C04", inv: "C04.bytes_in_released_memory", detail: f.detail.clone() }));
                                }
                            }
                            // Right after clone/take, or on an object the operation was not
                            // aimed at, any discrepancy is (also) a failure of snapshot
                            // independence.
                            if (matches!(op.k, "clone" | "take") || !target) && f.prop != "C20" {
                                also.borrow_mut().push((i, Fail { prop: f.prop, inv: f.inv, detail: f.detail.clone() }));
                                if op.k == "take" && f.prop != "C03" {
                                    // take() is one of the pipe's own operations: what it hands
                                    // over must still be the bytes appended, placeholders included.
                                    also.borrow_mut().push((i, Fail { prop: "C03", inv: "C03.wrong_after_take", detail: f.detail.clone() }));
                                }
                                (i, Fail { prop: "C20", inv: if matches!(op.k, "clone" | "take") { "C20.wrong_after_clone_or_take" } else { "C20.sibling_changed" }, detail: format!("{} [{}]", f.detail, f.inv) })
                            } else {
                                (i, f)
                            }
                        })?;
                    }
                }
                st.check_held(&mut log).map_err(|f| (i, f))?;
            }
            // Final drops, in an order drawn from the plan's seed.
            at.set(usize::MAX);
            let mut rng = Rng::new(plan.seed ^ plan.index ^ 0xd209);
            let mut order: Vec<usize> = (0..N_OBJ + N_SPARE + N_HELD).collect();
            for i in (1..order.len()).rev() {
                order.swap(i, rng.below(i as u64 + 1) as usize);
            }
            for slot in order {
                if slot < N_OBJ {
                    st.objs[slot] = None;
                } else if slot < N_OBJ + N_SPARE {
                    st.spares[slot - N_OBJ] = None;
                } else {
                    st.held[slot - N_OBJ - N_SPARE] = None;
                }
                for idx in 0..N_OBJ {
                    if st.objs[idx].is_some() {
                        st.check_obj(idx, "drop", false, &mut log, stats).map_err(|f| {
                            if f.inv == "C05.dangling" {
                                also.borrow_mut().push((usize::MAX, Fail { prop: "C03", inv: "C03.bytes_in_released_memory", detail: f.detail.clone() }));
                                also.borrow_mut().push((usize::MAX, Fail { prop: "C20", inv: "C20.sibling_changed", detail: format!("{} [{}]", f.detail, f.inv) }));
                            }
                            (usize::MAX, f)
                        })?;
                    }
                }
                st.check_held(&mut log).map_err(|f| (usize::MAX, f))?;
            }
            Ok(())
        }));

        let mut extra: Vec<Violation> = also
            .into_inner()
            .into_iter()
            .map(|(i, f)| Violation { prop: f.prop, inv: f.inv.to_string(), detail: f.detail, at_op: i, key: String::new() })
            .collect();
        let violation = match result {
            Ok(Ok(())) => {
                let chunks = ByteArena::num_live_chunks();
                let bytes = ByteArena::num_live_bytes();
                let reg = owning_iovec::verif::live_totals();
                if chunks != base_chunks || bytes != base_bytes || reg != base_reg {
                    Some(Violation {
                        prop: "C10",
                        inv: "C10.leak_after_drop".to_string(),
                        detail: format!(
                            "after dropping everything: live chunks {} (baseline {}), live bytes {} (baseline {}), registry {:?} (baseline {:?})",
                            chunks, base_chunks, bytes, base_bytes, reg, base_reg
                        ),
                        at_op: usize::MAX,
                        key: String::new(),
                    })
                } else {
                    None
                }
            }
            Ok(Err((i, f))) => {
                if f.inv == "C04.consumed_past_placeholder" {
                    // Over-consumption also breaks the pipe contract: the call
                    // removed bytes that were not consumable.
                    extra.push(Violation {
                        prop: "C03",
                        inv: "C03.consumed_unstable".to_string(),
                        detail: f.detail.clone(),
                        at_op: i,
                        key: String::new(),
                    });
                }
                Some(Violation {
                    prop: f.prop,
                    inv: f.inv.to_string(),
                    detail: f.detail,
                    at_op: i,
                    key: String::new(),
                })
            }
            Err(e) => {
                let msg = panic_message(&e);
                let i = at.get();
                let kind = if i == usize::MAX { "drop" } else { plan.ops[i].k };
                if msg.starts_with("harness:") {
                    eprintln!("HARNESS ERROR: {}", msg);
                    std::process::exit(2);
                }
                let (prop, inv) = if msg.contains("verif: new arena chunk overlaps") {
                    ("C05", "C05.overlap".to_string())
                } else if i == usize::MAX {
                    ("C10", "C10.panic_in_drop".to_string())
                } else {
                    let p = panic_prop(kind);
                    if p == "C04" && kind != "badfill" {
                        // Registration and backfill are producer operations of the pipe:
                        // a placeholder that cannot be registered or filled also breaks
                        // "every backfilled placeholder holds its backfilled value".
                        extra.push(Violation {
                            prop: "C03",
                            inv: "C03.panic_in_placeholder_op".to_string(),
                            detail: format!("panic during {}: {}", kind, crate::driver::last_panic_location(&msg)),
                            at_op: i,
                            key: String::new(),
                        });
                    }
                    (p, format!("{}.panic", p))
                };
                Some(Violation {
                    prop,
                    inv,
                    detail: format!("panic during {}: {}", kind, crate::driver::last_panic_location(&msg)),
                    at_op: i,
                    key: String::new(),
                })
            }
        };
        log.u64(violation.is_some() as u64);
        Outcome {
            violations: violation.into_iter().chain(extra).collect(),
            log_hash: log.0,
            nontrivial: effective >= 8 && produced && consumed,
        }
    }
}


/// Hook-free workload for Miri (`-Zmiri-many-seeds`): several plain threads,
/// each with its own unrelated iovecs and arenas, creating and releasing
/// arena chunks at the same time.  The process-wide live-chunk counters must
/// be back at their baseline once every thread has dropped everything.
pub fn plain_chunk_threads_scenario(seed: u64) -> i32 {
    let base = (ByteArena::num_live_chunks(), ByteArena::num_live_bytes());
    let mut rng = Rng::new(seed ^ 0xc4a2);
    let nthreads = rng.range(2, 3);
    let mut handles = Vec::new();
    for t in 0..nthreads {
        let rounds = rng.range(1, 3);
        let size = rng.range(1, 40) as usize;
        handles.push(std::thread::spawn(move || {
            for r in 0..rounds {
                let mut iov: OwningIovec<'static> = OwningIovec::new();
                iov.push_copy(&vec![t as u8 + 1; size + r as usize]);
                let clone = iov.clone();
                let taken = iov.take();
                drop(clone);
                iov.push_copy(&[9u8; 3]);
                drop(iov);
                assert_eq!(taken.flatten().unwrap_or_else(|v| v).len(), size + r as usize);
            }
        }));
    }
    let mut bad = 0;
    for h in handles {
        if h.join().is_err() {
            println!("FOUND C10 C10.panic (plain chunk threads, seed {})", seed);
            bad += 1;
        }
    }
    let now = (ByteArena::num_live_chunks(), ByteArena::num_live_bytes());
    if now != base {
        println!("FOUND C10 C10.leak_after_drop (plain chunk threads, seed {}): counters {:?}, baseline {:?}", seed, now, base);
        bad += 1;
    }
    println!("DONE plain-chunk-threads seed={}", seed);
    if bad > 0 { 1 } else { 0 }
}
