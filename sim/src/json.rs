//! Minimal JSON value, writer and parser (no dependency).
use std::collections::BTreeMap;

#[derive(Clone, Debug, PartialEq)]
pub enum J {
    Null,
    Bool(bool),
    Int(i128),
    Float(f64),
    Str(String),
    Arr(Vec<J>),
    Obj(BTreeMap<String, J>),
}

impl J {
    pub fn obj() -> J {
        J::Obj(BTreeMap::new())
    }

    pub fn set(&mut self, key: &str, value: J) -> &mut J {
        if let J::Obj(map) = self {
            map.insert(key.to_string(), value);
        } else {
            panic!("not an object");
        }
        self
    }

    pub fn with(mut self, key: &str, value: J) -> J {
        self.set(key, value);
        self
    }

    pub fn get(&self, key: &str) -> Option<&J> {
        match self {
            J::Obj(map) => map.get(key),
            _ => None,
        }
    }

    pub fn as_u64(&self) -> Option<u64> {
        match self {
            J::Int(i) if *i >= 0 && *i <= u64::MAX as i128 => Some(*i as u64),
            _ => None,
        }
    }

    pub fn as_str(&self) -> Option<&str> {
        match self {
            J::Str(s) => Some(s),
            _ => None,
        }
    }

    pub fn as_arr(&self) -> Option<&[J]> {
        match self {
            J::Arr(a) => Some(a),
            _ => None,
        }
    }

    pub fn str(s: &str) -> J {
        J::Str(s.to_string())
    }

    pub fn u(v: u64) -> J {
        J::Int(v as i128)
    }

    pub fn write(&self, out: &mut String) {
        match self {
            J::Null => out.push_str("null"),
            J::Bool(b) => out.push_str(if *b { "true" } else { "false" }),
            J::Int(i) => out.push_str(&i.to_string()),
            J::Float(f) => {
                if f.is_finite() {
                    out.push_str(&format!("{:.3}", f));
                } else {
                    out.push_str("0")
                }
            }
            J::Str(s) => write_str(s, out),
            J::Arr(a) => {
                out.push('[');
                for (i, v) in a.iter().enumerate() {
                    if i > 0 {
                        out.push(',');
                    }
                    v.write(out);
                }
                out.push(']');
            }
            J::Obj(m) => {
                out.push('{');
                for (i, (k, v)) in m.iter().enumerate() {
                    if i > 0 {
                        out.push(',');
                    }
                    write_str(k, out);
                    out.push(':');
                    v.write(out);
                }
                out.push('}');
            }
        }
    }

    pub fn to_string(&self) -> String {
        let mut s = String::new();
        self.write(&mut s);
        s
    }

    /// Pretty printer (two-space indent), arrays of scalars on one line.
    pub fn pretty(&self) -> String {
        let mut s = String::new();
        self.pretty_into(&mut s, 0);
        s.push('\n');
        s
    }

    fn is_scalar(&self) -> bool {
        !matches!(self, J::Arr(_) | J::Obj(_))
    }

    fn pretty_into(&self, out: &mut String, indent: usize) {
        match self {
            J::Arr(a) if a.iter().all(|v| v.is_scalar()) => self.write(out),
            J::Arr(a) => {
                out.push_str("[\n");
                for (i, v) in a.iter().enumerate() {
                    out.push_str(&" ".repeat(indent + 2));
                    if v.is_scalar()
                        || matches!(v, J::Arr(inner) if inner.iter().all(|x| x.is_scalar()))
                    {
                        v.write(out);
                    } else {
                        v.pretty_into(out, indent + 2);
                    }
                    if i + 1 < a.len() {
                        out.push(',');
                    }
                    out.push('\n');
                }
                out.push_str(&" ".repeat(indent));
                out.push(']');
            }
            J::Obj(m) => {
                out.push_str("{\n");
                let n = m.len();
                for (i, (k, v)) in m.iter().enumerate() {
                    out.push_str(&" ".repeat(indent + 2));
                    write_str(k, out);
                    out.push_str(": ");
                    v.pretty_into(out, indent + 2);
                    if i + 1 < n {
                        out.push(',');
                    }
                    out.push('\n');
                }
                out.push_str(&" ".repeat(indent));
                out.push('}');
            }
            _ => self.write(out),
        }
    }

    pub fn parse(text: &str) -> Result<J, String> {
        let mut p = Parser {
            b: text.as_bytes(),
            i: 0,
        };
        let v = p.value()?;
        p.ws();
        if p.i != p.b.len() {
            return Err(format!("trailing data at {}", p.i));
        }
        Ok(v)
    }
}

fn write_str(s: &str, out: &mut String) {
    out.push('"');
    for c in s.chars() {
        match c {
            '"' => out.push_str("\\\""),
            '\\' => out.push_str("\\\\"),
            '\n' => out.push_str("\\n"),
            '\r' => out.push_str("\\r"),
            '\t' => out.push_str("\\t"),
            c if (c as u32) < 0x20 => out.push_str(&format!("\\u{:04x}", c as u32)),
            c => out.push(c),
        }
    }
    out.push('"');
}

struct Parser<'a> {
    b: &'a [u8],
    i: usize,
}

impl Parser<'_> {
    fn ws(&mut self) {
        while self.i < self.b.len() && (self.b[self.i] as char).is_ascii_whitespace() {
            self.i += 1;
        }
    }

    fn value(&mut self) -> Result<J, String> {
        self.ws();
        if self.i >= self.b.len() {
            return Err("unexpected end".into());
        }
        match self.b[self.i] {
            b'{' => {
                self.i += 1;
                let mut m = BTreeMap::new();
                self.ws();
                if self.peek() == Some(b'}') {
                    self.i += 1;
                    return Ok(J::Obj(m));
                }
                loop {
                    self.ws();
                    let k = self.string()?;
                    self.ws();
                    self.expect(b':')?;
                    let v = self.value()?;
                    m.insert(k, v);
                    self.ws();
                    match self.peek() {
                        Some(b',') => self.i += 1,
                        Some(b'}') => {
                            self.i += 1;
                            return Ok(J::Obj(m));
                        }
                        _ => return Err(format!("bad object at {}", self.i)),
                    }
                }
            }
            b'[' => {
                self.i += 1;
                let mut a = Vec::new();
                self.ws();
                if self.peek() == Some(b']') {
                    self.i += 1;
                    return Ok(J::Arr(a));
                }
                loop {
                    a.push(self.value()?);
                    self.ws();
                    match self.peek() {
                        Some(b',') => self.i += 1,
                        Some(b']') => {
                            self.i += 1;
                            return Ok(J::Arr(a));
                        }
                        _ => return Err(format!("bad array at {}", self.i)),
                    }
                }
            }
            b'"' => Ok(J::Str(self.string()?)),
            b't' => self.lit("true", J::Bool(true)),
            b'f' => self.lit("false", J::Bool(false)),
            b'n' => self.lit("null", J::Null),
            _ => self.number(),
        }
    }

    fn peek(&self) -> Option<u8> {
        self.b.get(self.i).copied()
    }

    fn expect(&mut self, c: u8) -> Result<(), String> {
        if self.peek() == Some(c) {
            self.i += 1;
            Ok(())
        } else {
            Err(format!("expected {} at {}", c as char, self.i))
        }
    }

    fn lit(&mut self, s: &str, v: J) -> Result<J, String> {
        if self.b[self.i..].starts_with(s.as_bytes()) {
            self.i += s.len();
            Ok(v)
        } else {
            Err(format!("bad literal at {}", self.i))
        }
    }

    fn number(&mut self) -> Result<J, String> {
        let start = self.i;
        let mut float = false;
        while self.i < self.b.len() {
            match self.b[self.i] {
                b'0'..=b'9' | b'-' | b'+' => {}
                b'.' | b'e' | b'E' => float = true,
                _ => break,
            }
            self.i += 1;
        }
        let s = std::str::from_utf8(&self.b[start..self.i]).unwrap();
        if float {
            s.parse::<f64>().map(J::Float).map_err(|e| e.to_string())
        } else {
            s.parse::<i128>().map(J::Int).map_err(|e| e.to_string())
        }
    }

    fn string(&mut self) -> Result<String, String> {
        self.expect(b'"')?;
        let mut out = Vec::new();
        loop {
            let c = *self.b.get(self.i).ok_or("unterminated string")?;
            self.i += 1;
            match c {
                b'"' => break,
                b'\\' => {
                    let e = *self.b.get(self.i).ok_or("bad escape")?;
                    self.i += 1;
                    match e {
                        b'n' => out.push(b'\n'),
                        b'r' => out.push(b'\r'),
                        b't' => out.push(b'\t'),
                        b'u' => {
                            let hex = std::str::from_utf8(&self.b[self.i..self.i + 4])
                                .map_err(|e| e.to_string())?;
                            let code = u32::from_str_radix(hex, 16).map_err(|e| e.to_string())?;
                            self.i += 4;
                            let ch = char::from_u32(code).unwrap_or('?');
                            let mut buf = [0u8; 4];
                            out.extend_from_slice(ch.encode_utf8(&mut buf).as_bytes());
                        }
                        other => out.push(other),
                    }
                }
                c => out.push(c),
            }
        }
        String::from_utf8(out).map_err(|e| e.to_string())
    }
}

pub fn hex(bytes: &[u8]) -> String {
    let mut s = String::with_capacity(bytes.len() * 2);
    for b in bytes {
        s.push_str(&format!("{:02x}", b));
    }
    s
}
