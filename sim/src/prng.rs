//! SplitMix64 / xoshiro256** PRNG.  Every choice of a run is derived from one
//! integer through this generator; nothing else (clock, address, thread id,
//! hash order) feeds a plan.

#[derive(Clone, Debug)]
pub struct Rng {
    s: [u64; 4],
}

pub fn splitmix(x: &mut u64) -> u64 {
    *x = x.wrapping_add(0x9E37_79B9_7F4A_7C15);
    let mut z = *x;
    z = (z ^ (z >> 30)).wrapping_mul(0xBF58_476D_1CE4_E5B9);
    z = (z ^ (z >> 27)).wrapping_mul(0x94D0_49BB_1331_11EB);
    z ^ (z >> 31)
}

/// Mixes several integers into one seed (order sensitive).
pub fn mix(parts: &[u64]) -> u64 {
    let mut acc = 0x243F_6A88_85A3_08D3u64;
    for p in parts {
        let mut x = acc ^ p.wrapping_mul(0x9E37_79B9_7F4A_7C15);
        acc = splitmix(&mut x).rotate_left(17) ^ *p;
        let mut y = acc;
        acc = splitmix(&mut y);
    }
    acc
}

pub fn hash_str(s: &str) -> u64 {
    let mut h = 0xcbf2_9ce4_8422_2325u64;
    for b in s.bytes() {
        h ^= b as u64;
        h = h.wrapping_mul(0x100_0000_01b3);
    }
    h
}

impl Rng {
    pub const fn from_state(s: [u64; 4]) -> Rng {
        Rng { s }
    }

    pub fn new(seed: u64) -> Rng {
        let mut x = seed;
        let s = [
            splitmix(&mut x),
            splitmix(&mut x),
            splitmix(&mut x),
            splitmix(&mut x),
        ];
        Rng { s }
    }

    pub fn next(&mut self) -> u64 {
        let result = self.s[1].wrapping_mul(5).rotate_left(7).wrapping_mul(9);
        let t = self.s[1] << 17;
        self.s[2] ^= self.s[0];
        self.s[3] ^= self.s[1];
        self.s[1] ^= self.s[2];
        self.s[0] ^= self.s[3];
        self.s[2] ^= t;
        self.s[3] = self.s[3].rotate_left(45);
        result
    }

    /// Uniform in `0..n` (`n > 0`).
    pub fn below(&mut self, n: u64) -> u64 {
        debug_assert!(n > 0);
        // Multiply-shift; the tiny bias is irrelevant here.
        (((self.next() as u128) * (n as u128)) >> 64) as u64
    }

    /// Uniform in `lo..=hi`.
    pub fn range(&mut self, lo: u64, hi: u64) -> u64 {
        lo + self.below(hi - lo + 1)
    }

    /// True with probability `num/den`.
    pub fn chance(&mut self, num: u64, den: u64) -> bool {
        self.below(den) < num
    }

    pub fn pick<'a, T>(&mut self, items: &'a [T]) -> &'a T {
        &items[self.below(items.len() as u64) as usize]
    }

    /// Picks an index according to integer weights (sum > 0).
    pub fn weighted(&mut self, weights: &[u64]) -> usize {
        let total: u64 = weights.iter().sum();
        let mut x = self.below(total);
        for (i, w) in weights.iter().enumerate() {
            if x < *w {
                return i;
            }
            x -= *w;
        }
        unreachable!()
    }

    /// A size biased towards the given boundaries (+-2), otherwise uniform
    /// in `0..=max`.
    pub fn boundary_size(&mut self, boundaries: &[u64], max: u64) -> u64 {
        if !boundaries.is_empty() && self.chance(1, 2) {
            let b = *self.pick(boundaries);
            let d = self.below(5) as i64 - 2;
            ((b as i64 + d).max(0) as u64).min(max)
        } else if self.chance(1, 2) {
            self.below(max.min(16) + 1)
        } else {
            self.below(max + 1)
        }
    }
}

/// Streaming 64-bit hash for event logs.
#[derive(Clone, Copy, Debug)]
pub struct LogHash(pub u64);

impl LogHash {
    pub fn new() -> Self {
        LogHash(0x6a09_e667_f3bc_c908)
    }

    #[inline]
    pub fn u64(&mut self, v: u64) {
        let mut x = self.0 ^ v.wrapping_mul(0x9E37_79B9_7F4A_7C15);
        self.0 = splitmix(&mut x).rotate_left(23) ^ v;
    }

    pub fn bytes(&mut self, b: &[u8]) {
        self.u64(b.len() as u64);
        for chunk in b.chunks(8) {
            let mut w = [0u8; 8];
            w[..chunk.len()].copy_from_slice(chunk);
            self.u64(u64::from_le_bytes(w));
        }
    }

    pub fn str(&mut self, s: &str) {
        self.bytes(s.as_bytes());
    }
}
