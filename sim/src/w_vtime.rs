//! World V: simulated wall clock and simulated file server for
//! `vouched_time` (C14: `VouchedTime` window; C19: the NFS base time only
//! moves forward, only on trusted evidence).  One OS process per history,
//! because the module's state is process wide and cannot be reset.
use std::collections::BTreeMap;
use std::os::unix::fs::MetadataExt;
use std::panic::AssertUnwindSafe;
use std::path::PathBuf;
use std::sync::Mutex;

use vouched_time::nfs_voucher;
use vouched_time::verif_seams::ClockHooks;
use vouched_time::verif_seams::FileHooks;
use vouched_time::VouchedTime;

use crate::plan::*;
use crate::prng::LogHash;
use crate::prng::Rng;

pub struct VtimeWorld;

pub const KINDS: &[&str] = &[
    "advance", "jump", "skew", "mkfile", "write", "movedev", "trust", "observe", "maybe_observe",
    "scan", "get", "get_unlocked", "should", "vnow", "vnew",
];

const VOUCH: raffle::VouchingParameters = raffle::VouchingParameters::parse_or_die(
    "VOUCH-773ec2a0e62c20cd-f9e079b78e895091-fc1da7b1b77c57cb-594b9cce3091464a",
);
const N_FILES: usize = 5;
const DEVICES: [u64; 4] = [0xd0, 0xd1, 0xd2, 0xd3];
/// Calendar limits of `time::PrimitiveDateTime` in ms since the epoch.
const MIN_MS: i128 = -377_705_116_800_000;
const MAX_MS: i128 = 253_402_300_799_999;

struct SimFile {
    ino: u64,
    dev: u64,
    ctime_ms: u64,
}

struct SimState {
    now_ms: i128,
    skew: BTreeMap<u64, i128>,
    files: Vec<Option<SimFile>>,
    by_ino: BTreeMap<u64, usize>,
    touches: u64,
}

static STATE: Mutex<SimState> = Mutex::new(SimState {
    now_ms: 1_700_000_000_000,
    skew: BTreeMap::new(),
    files: Vec::new(),
    by_ino: BTreeMap::new(),
    touches: 0,
});

fn state() -> std::sync::MutexGuard<'static, SimState> {
    match STATE.lock() {
        Ok(g) => g,
        Err(p) => p.into_inner(),
    }
}

impl SimState {
    fn server_now(&self, dev: u64) -> u64 {
        let t = self.now_ms + self.skew.get(&dev).copied().unwrap_or(0);
        t.clamp(0, 1i128 << 62) as u64
    }
}

fn to_datetime(ms: i128) -> time::OffsetDateTime {
    let ms = ms.clamp(MIN_MS, MAX_MS);
    time::OffsetDateTime::from_unix_timestamp_nanos(ms * 1_000_000).expect("harness: time in range")
}

fn to_primitive(ms: i128) -> time::PrimitiveDateTime {
    let t = to_datetime(ms);
    time::PrimitiveDateTime::new(t.date(), t.time())
}

struct Hooks;

impl ClockHooks for Hooks {
    fn now_utc(&self) -> Option<time::OffsetDateTime> {
        Some(to_datetime(state().now_ms))
    }
}

impl FileHooks for Hooks {
    fn dev(&self, file: &std::fs::File, real: u64) -> u64 {
        let meta = file.metadata().ok();
        let ino = meta.as_ref().map(|m| m.ino()).unwrap_or(0);
        // What the module took for the device must be the file's st_dev.
        if let Some(m) = &meta {
            if real != m.dev() {
                CTIME_SOURCE_MISMATCH.store(true, std::sync::atomic::Ordering::Relaxed);
            }
        }
        let st = state();
        match st.by_ino.get(&ino).and_then(|s| st.files[*s].as_ref()) {
            Some(f) => f.dev,
            None => real,
        }
    }
    fn ctime_ms(&self, file: &std::fs::File, real: u64) -> u64 {
        let meta = file.metadata().ok();
        let ino = meta.as_ref().map(|m| m.ino()).unwrap_or(0);
        // The value the module computed must be the file's st_ctime (in ms), whatever
        // its modification or access times say; only then is it replaced by the
        // simulated change time.
        if let Some(m) = &meta {
            let actual = (m.ctime() as u64).saturating_mul(1000).saturating_add(m.ctime_nsec() as u64 / 1_000_000);
            if real != actual {
                CTIME_SOURCE_MISMATCH.store(true, std::sync::atomic::Ordering::Relaxed);
            }
        }
        let st = state();
        match st.by_ino.get(&ino).and_then(|s| st.files[*s].as_ref()) {
            Some(f) => f.ctime_ms,
            None => real,
        }
    }
    fn touched(&self, file: &std::fs::File) {
        let ino = file.metadata().map(|m| m.ino()).unwrap_or(0);
        let mut st = state();
        st.touches += 1;
        if let Some(slot) = st.by_ino.get(&ino).copied() {
            let dev = st.files[slot].as_ref().map(|f| f.dev).unwrap_or(0);
            let t = st.server_now(dev);
            if let Some(f) = st.files[slot].as_mut() {
                f.ctime_ms = t;
            }
        }
    }
}

static HOOKS: Hooks = Hooks;
static CTIME_SOURCE_MISMATCH: std::sync::atomic::AtomicBool = std::sync::atomic::AtomicBool::new(false);

fn register_hooks() {
    static ONCE: std::sync::Once = std::sync::Once::new();
    ONCE.call_once(|| {
        vouched_time::verif_seams::register_clock_hooks(&HOOKS);
        vouched_time::verif_seams::register_file_hooks(&HOOKS);
    });
}

/// A pair the module hands out must vouch for its base time, and must be
/// accepted by `VouchedTime`'s own check for a local time equal to the base
/// (whenever that time is representable).
fn voucher_ok(base: u64, voucher: raffle::Voucher) -> bool {
    if !VOUCH.checking_parameters().check(base, voucher) {
        return false;
    }
    if (base as i128) <= MAX_MS {
        return VouchedTime::check(to_primitive(base as i128), base, voucher).is_ok();
    }
    true
}

fn push_v(vs: &mut Vec<Violation>, prop: &'static str, inv: &str, detail: String, at: usize) {
    if !vs.iter().any(|v| v.inv == inv) {
        vs.push(Violation { prop, inv: inv.to_string(), detail, at_op: at, key: String::new() });
    }
}

fn delta(class: u64) -> i128 {
    const D: [i128; 16] = [0, 1, 99, 100, 101, 999, 1000, 1001, 1993, 1994, 2989, 2990, 2991, 3001, 60_000, 3_600_000];
    D[(class as usize) % D.len()]
}

/// Reference predicate for C14, evaluated in i128 as the property states.
fn window_ok(local_ms: i128, base: u64, voucher_valid: bool) -> bool {
    let diff = local_ms - base as i128;
    voucher_valid && local_ms >= 0 && (-59_900..=2_990).contains(&diff)
}

fn special_base(class: u64, local_ms: i128) -> u64 {
    let l = local_ms.clamp(0, u64::MAX as i128) as u64;
    match class % 20 {
        0 => l,
        1 => l.wrapping_add(59_900),
        2 => l.wrapping_add(59_901),
        3 => l.wrapping_add(59_899),
        4 => l.wrapping_sub(2_990),
        5 => l.wrapping_sub(2_991),
        6 => l.wrapping_sub(2_989),
        7 => 0,
        8 => 59_900,
        9 => 1u64 << 63,
        10 => u64::MAX,
        11 => u64::MAX - 100,
        12 => u64::MAX - 2_990,
        13 => u64::MAX - 2_989,
        14 => u64::MAX - 3_000,
        15 => l.wrapping_add(1),
        16 => l.wrapping_sub(1),
        17 => (l as i128 - 59_900 + (u64::MAX as i128) + 1).clamp(0, u64::MAX as i128) as u64,
        18 => 2_990,
        _ => l ^ (1 << 40),
    }
}

fn special_local(class: u64, now_ms: i128) -> i128 {
    match class % 14 {
        0 => now_ms,
        1 => -1,
        2 => 0,
        3 => 1,
        4 => 1_000,
        5 => 2_989,
        6 => 2_990,
        7 => 2_991,
        8 => MIN_MS,
        9 => MAX_MS,
        10 => 59_900,
        11 => 59_901,
        12 => -59_900,
        _ => now_ms + 12_345,
    }
}

struct Hist {
    dir: PathBuf,
    paths: Vec<PathBuf>,
    handles: Vec<Option<std::fs::File>>,
    trusted: BTreeMap<u64, usize>, // dev -> file slot whose path is registered
    base: u64,
    any_trust: bool,
}

fn current_base() -> (u64, raffle::Voucher) {
    nfs_voucher::get_base_time_unlocked(to_datetime(state().now_ms)).expect("harness: unlocked never fails")
}

fn run_history(plan: &Plan, stats: &mut Stats, log: &mut LogHash, vs: &mut Vec<Violation>, at: &std::cell::Cell<usize>) {
    register_hooks();
    let dir = std::env::temp_dir().join(format!("woodpile-vtime-{}", std::process::id()));
    let _ = std::fs::create_dir_all(&dir);
    let mut h = Hist { dir: dir.clone(), paths: Vec::new(), handles: Vec::new(), trusted: BTreeMap::new(), base: 0, any_trust: false };
    {
        let mut st = state();
        st.now_ms = 1_700_000_000_000 + (plan.knob("start_offset") as i128);
        st.files = (0..N_FILES).map(|_| None).collect();
    }
    for i in 0..N_FILES {
        h.paths.push(dir.join(format!("f{}", i)));
        h.handles.push(None);
    }
    let (b0, v0) = current_base();
    if b0 != 0 || !voucher_ok(b0, v0) {
        push_v(vs, "C19", "C19.initial", format!("a fresh process starts with base {} instead of the epoch pair", b0), 0);
    }
    let mut sim_ms: i128 = 0;
    for (i, op) in plan.ops.iter().enumerate() {
        at.set(i);
        let a = op.a;
        let slot = (a[0] as usize) % N_FILES;
        // Bases this call is allowed to establish.
        let mut allowed: Vec<u64> = Vec::new();
        let before = current_base().0;
        let exists = |h: &Hist, s: usize| h.handles[s].is_some();
        match op.k {
            "advance" => {
                let d = delta(a[0]);
                state().now_ms += d;
                sim_ms += d;
                stats.bump("op.clock_advance");
            }
            "jump" => {
                let mut st = state();
                let old = st.now_ms;
                st.now_ms = match a[0] % 8 {
                    0 => -1,
                    1 => 0,
                    2 => 2_989,
                    3 => 2_990,
                    4 => 2_991,
                    5 => (old - delta(a[1]) * 10).max(MIN_MS),
                    6 => (old + 86_400_000 * (1 + (a[1] % 400) as i128)).min(MAX_MS),
                    _ => 1_700_000_000_000 + (a[1] % 1_000_000) as i128,
                };
                drop(st);
                stats.bump(if a[0] % 8 == 5 { "fault.clock_jump_backwards" } else if a[0] % 8 <= 4 { "fault.clock_jump_to_epoch_region" } else { "fault.clock_jump_forwards" });
            }
            "skew" => {
                let dev = DEVICES[(a[0] as usize) % DEVICES.len()];
                let s = match a[1] % 6 {
                    0 => 0,
                    1 => 500,
                    2 => -500,
                    3 => 5_000,
                    4 => -70_000,
                    _ => 120_000,
                };
                state().skew.insert(dev, s);
                stats.bump("fault.server_clock_skew");
            }
            "mkfile" | "write" | "movedev" => {
                let dev = DEVICES[(a[1] as usize) % DEVICES.len()];
                if op.k == "mkfile" || !exists(&h, slot) {
                    let f = std::fs::File::options().read(true).write(true).create(true).truncate(false).open(&h.paths[slot]).expect("harness: cannot create file");
                    // The modification time says something else than the change time.
                    let skew = std::time::Duration::from_secs(3_600 * (1 + a[3] % 48));
                    let mtime = if a[3] % 2 == 0 { std::time::SystemTime::now() + skew } else { std::time::SystemTime::now() - skew };
                    let _ = f.set_modified(mtime);
                    let ino = f.metadata().expect("harness: stat").ino();
                    let mut st = state();
                    let now = st.server_now(dev);
                    let base = before;
                    let ctime = match a[2] % 6 {
                        0 => now,
                        1 => base.saturating_sub(1 + a[3] % 5_000),
                        2 => base,
                        3 => base.saturating_add(1 + a[3] % 5_000),
                        4 => now.saturating_sub(a[3] % 100_000),
                        _ => now.saturating_add(a[3] % 10_000),
                    };
                    st.files[slot] = Some(SimFile { ino, dev, ctime_ms: ctime });
                    st.by_ino.insert(ino, slot);
                    drop(st);
                    h.handles[slot] = Some(f);
                } else if op.k == "write" {
                    let mut st = state();
                    let d = st.files[slot].as_ref().unwrap().dev;
                    let t = st.server_now(d);
                    st.files[slot].as_mut().unwrap().ctime_ms = t;
                } else {
                    let mut st = state();
                    st.files[slot].as_mut().unwrap().dev = dev;
                    stats.bump("fault.file_moved_to_other_device");
                }
            }
            "trust" => {
                if exists(&h, slot) {
                    let dev = state().files[slot].as_ref().unwrap().dev;
                    let res = nfs_voucher::add_trusted_path(h.paths[slot].clone());
                    let ct = state().files[slot].as_ref().unwrap().ctime_ms;
                    allowed.push(ct);
                    match res {
                        Ok(()) => {
                            h.trusted.insert(dev, slot);
                            h.any_trust = true;
                            stats.bump("op.add_trusted_path");
                        }
                        Err(e) => push_v(vs, "C19", "C19.trust_failed", format!("add_trusted_path failed on a writable file: {}", e), i),
                    }
                }
            }
            "observe" | "maybe_observe" => {
                if exists(&h, slot) {
                    let (dev, ct) = {
                        let st = state();
                        let f = st.files[slot].as_ref().unwrap();
                        (f.dev, f.ctime_ms)
                    };
                    let is_trusted = h.trusted.contains_key(&dev);
                    if is_trusted {
                        allowed.push(ct);
                    }
                    let file = h.handles[slot].as_ref().unwrap();
                    if op.k == "observe" {
                        match nfs_voucher::observe_file_time(file) {
                            Ok((_, None)) => {
                                if is_trusted {
                                    push_v(vs, "C19", "C19.trusted_ignored", "observe_file_time reported nothing for a file on a trusted device".into(), i);
                                }
                                stats.bump("probe.observe_untrusted_device");
                            }
                            Ok((_, Some((b, v)))) => {
                                if !is_trusted {
                                    push_v(vs, "C19", "C19.untrusted_observed", format!("observe_file_time returned base {} for a file on a device that was never registered", b), i);
                                }
                                if b != ct || !voucher_ok(b, v) {
                                    push_v(vs, "C19", "C19.observe_pair", format!("observe_file_time returned ({}, voucher ok {}) for change-time {}", b, voucher_ok(b, v), ct), i);
                                }
                                if ct < before {
                                    stats.bump("probe.observe_stale_file");
                                }
                                stats.bump("probe.observe_trusted_device");
                            }
                            Err(e) => push_v(vs, "C19", "C19.io_error", format!("observe_file_time failed: {}", e), i),
                        }
                    } else {
                        // now = None entry point: run on a fresh thread so that the
                        // real-time throttle is unset and the outcome is deterministic.
                        let f2 = file.try_clone().expect("harness: dup");
                        std::thread::spawn(move || nfs_voucher::maybe_observe_file_time(&f2)).join().expect("harness: join");
                        stats.bump("op.maybe_observe");
                    }
                }
            }
            "scan" | "get" => {
                // Every registered path whose file is (still) on a trusted device may be touched.
                {
                    let st = state();
                    for (_, s) in h.trusted.iter() {
                        if let Some(f) = st.files[*s].as_ref() {
                            if h.trusted.contains_key(&f.dev) {
                                allowed.push(st.server_now(f.dev));
                            } else {
                                stats.bump("probe.trusted_path_moved_to_untrusted_device");
                            }
                        }
                    }
                }
                if op.k == "scan" {
                    let r = std::thread::spawn(nfs_voucher::scan_base_time).join().expect("harness: join");
                    if r.is_err() {
                        stats.bump("probe.scan_failed");
                    }
                    stats.bump("op.scan_base_time");
                } else {
                    let now_ms = {
                        let st = state();
                        match a[0] % 6 {
                            0 => st.now_ms,
                            1 => before as i128 + 1_993,
                            2 => before as i128 + 1_994,
                            3 => before as i128 + 1_992,
                            4 => before as i128 - 10,
                            _ => before as i128 + 100_000,
                        }
                    };
                    if (now_ms - before as i128) > 1_993 {
                        stats.bump("probe.refresh_threshold_crossed");
                    }
                    match nfs_voucher::get_base_time(to_datetime(now_ms)) {
                        Ok((b, v)) => {
                            if !voucher_ok(b, v) {
                                push_v(vs, "C19", "C19.bad_voucher", format!("get_base_time returned base {} with a voucher that does not vouch for it", b), i);
                            }
                            let after = current_base().0;
                            if b != after && b != before && !allowed.contains(&b) {
                                push_v(vs, "C19", "C19.returned_pair", format!("get_base_time returned base {}, which is neither the stored base ({}) nor the change-time of a trusted file {:?}", b, after, allowed), i);
                            }
                            if !h.any_trust && b != 0 {
                                push_v(vs, "C19", "C19.moved_without_trust", format!("get_base_time returned {} before any path was trusted", b), i);
                            }
                        }
                        Err(_) => {
                            stats.bump("probe.get_base_time_failed");
                        }
                    }
                    stats.bump("op.get_base_time");
                }
            }
            "get_unlocked" => {
                stats.bump("op.get_base_time_unlocked");
            }
            "should" => {
                let leeway = match a[0] % 4 {
                    0 => None,
                    1 => Some(1000),
                    2 => Some(0),
                    _ => Some(u64::MAX),
                };
                let now_ms = before as i128 + leeway.unwrap_or(1_993).min(1 << 40) as i128 + (a[1] % 3) as i128 - 1;
                let r = nfs_voucher::should_refresh_base_time(leeway, Some(to_datetime(now_ms)));
                let want = (now_ms.clamp(0, u64::MAX as i128) as u64).saturating_sub(before) > leeway.unwrap_or(1_993) && !h.trusted.is_empty();
                // Policy, not part of the property: recorded, not judged.
                if r == want {
                    stats.bump("probe.refresh_policy_as_documented");
                }
                log.u64(r as u64);
            }
            "vnow" | "vnew" => {
                c14_op(op, i, stats, log, vs);
            }
            _ => {}
        }
        stats.ops_executed += 1;
        // ---- C19 invariants after every call ---------------------------
        if CTIME_SOURCE_MISMATCH.swap(false, std::sync::atomic::Ordering::Relaxed) {
            push_v(vs, "C19", "C19.ctime_source", format!("during {} the module derived a file's change time or device from something other than st_ctime / st_dev", op.k), i);
        }
        let (after, voucher) = current_base();
        log.u64(after);
        if !voucher_ok(after, voucher) {
            push_v(vs, "C19", "C19.bad_voucher", format!("the stored pair ({}, voucher) does not pass the voucher check", after), i);
        }
        if after < before {
            push_v(vs, "C19", "C19.decreased", format!("base time went from {} to {} during {}", before, after, op.k), i);
        }
        if after != before {
            if !h.any_trust {
                push_v(vs, "C19", "C19.moved_without_trust", format!("base time moved to {} during {} before any path was trusted", after, op.k), i);
            } else if !allowed.contains(&after) {
                push_v(vs, "C19", "C19.untrusted_evidence", format!("base time moved from {} to {} during {}, which is not the change-time of a file on a trusted device (allowed: {:?})", before, after, op.k, allowed), i);
            }
            stats.bump("probe.base_time_advanced");
        }
        h.base = after;
        let mut sig = LogHash::new();
        sig.str(op.k);
        sig.u64(h.trusted.len() as u64);
        sig.u64((after != before) as u64);
        sig.u64((after > 0) as u64);
        stats.state(sig.0);
    }
    stats.sim_time_ms += sim_ms.clamp(0, 1 << 50) as u64;
    drop(h.handles);
    let _ = std::fs::remove_dir_all(&h.dir);
}

/// C14 operations: `VouchedTime::new/check/get_local_time` on triples that
/// the simulated clock and time source produce, and `now()` through the
/// clock seam and the provider seam.
fn c14_op(op: &Op, i: usize, stats: &mut Stats, log: &mut LogHash, vs: &mut Vec<Violation>) {
    let a = op.a;
    let now_ms = state().now_ms;
    let mut other_rng = Rng::new(a[3] ^ 0x0714);
    let other = raffle::VouchingParameters::generate(|| Ok::<u64, ()>(other_rng.next())).unwrap();
    let voucher_for = |kind: u64, base: u64| -> (raffle::Voucher, bool) {
        match kind % 4 {
            0 | 1 => (VOUCH.vouch(base), true),
            2 => (VOUCH.vouch(base ^ 1), false),
            _ => (other.vouch(base), false),
        }
    };
    if op.k == "vnew" {
        let local_ms = special_local(a[0], now_ms);
        let base = special_base(a[1], local_ms);
        let (voucher, valid) = voucher_for(a[2], base);
        // Sub-millisecond digits (never before the epoch, where they would change the millisecond).
        let sub_ns = if local_ms >= 0 && local_ms < MAX_MS { [0i64, 0, 1, 999_999, 123_456][(a[3] % 5) as usize] } else { 0 };
        let local = to_primitive(local_ms) + time::Duration::nanoseconds(sub_ns);
        let want = window_ok(local_ms, base, valid);
        let got = VouchedTime::new(local, base, voucher);
        let chk = VouchedTime::check(local, base, voucher);
        log.u64(got.is_ok() as u64);
        {
            let mut sig = LogHash::new();
            sig.u64(a[0] % 14);
            sig.u64(a[1] % 20);
            sig.u64(a[2] % 4);
            sig.u64(want as u64);
            stats.state(sig.0);
        }
        if got.is_ok() != want || chk.is_ok() != want {
            push_v(vs, "C14", if want { "C14.rejects_valid" } else { "C14.accepts_invalid" }, format!("VouchedTime::new(local {} ms, base {}, voucher {}) is {} / check is {}, the rule says {}", local_ms, base, if valid { "valid" } else { "invalid" }, if got.is_ok() { "Ok" } else { "Err" }, if chk.is_ok() { "Ok" } else { "Err" }, if want { "Ok" } else { "Err" }), i);
        }
        if let Ok(vt) = got {
            if vt.get_local_time() != local {
                push_v(vs, "C14", "C14.local_time", "get_local_time differs from the local time given".into(), i);
            }
        }
        if want {
            stats.bump("probe.vouched_time_accepted");
        }
        if base > (1u64 << 63) && (0..3_000).contains(&local_ms) {
            stats.bump("probe.near_epoch_local_with_huge_base");
        }
        stats.bump("op.vouched_time_new");
    } else {
        // now(): the provider sees the simulated clock and answers per the plan.
        let kind = a[0] % 6;
        let base = match kind {
            0 => now_ms.clamp(0, u64::MAX as i128) as u64,
            _ => special_base(a[1], now_ms),
        };
        let (voucher, valid) = voucher_for(if kind == 0 { 0 } else { a[2] }, base);
        let seen = std::cell::Cell::new(None);
        let fails = kind == 5;
        // A slow time source: simulated time passes while the provider runs.  The
        // reading taken before the call is the one that counts.
        let latency = [0i128, 0, 100, 1_500, 3_200, 61_000][(a[3] % 6) as usize];
        let got = VouchedTime::now(|t: time::OffsetDateTime| {
            seen.set(Some(t));
            state().now_ms += latency;
            if fails {
                Err(std::io::Error::new(std::io::ErrorKind::TimedOut, "sim time source down"))
            } else {
                Ok((base, voucher))
            }
        });
        let want = !fails && window_ok(now_ms.clamp(MIN_MS, MAX_MS), base, valid);
        log.u64(got.is_ok() as u64);
        {
            let mut sig = LogHash::new();
            sig.u64(100 + kind);
            sig.u64(a[1] % 20);
            sig.u64(a[2] % 4);
            sig.u64(want as u64);
            sig.u64((now_ms < 0) as u64 + 2 * ((0..3000).contains(&now_ms)) as u64);
            stats.state(sig.0);
        }
        if seen.get().map(|t| t.unix_timestamp_nanos() / 1_000_000) != Some(now_ms.clamp(MIN_MS, MAX_MS)) {
            push_v(vs, "C14", "C14.now_clock", "now() handed the provider a time that is not the current clock".into(), i);
        }
        match &got {
            Err(e) if fails => {
                if e.kind() != std::io::ErrorKind::TimedOut {
                    push_v(vs, "C14", "C14.now_error", "now() did not propagate the provider's error".into(), i);
                }
                stats.bump("fault.time_source_error");
            }
            _ => {}
        }
        if got.is_ok() != want {
            push_v(vs, "C14", if want { "C14.rejects_valid" } else { "C14.accepts_invalid" }, format!("VouchedTime::now with clock {} ms, provider base {} ({} voucher) is {}, the rule says {}", now_ms, base, if valid { "valid" } else { "invalid" }, if got.is_ok() { "Ok" } else { "Err" }, if want { "Ok" } else { "Err" }), i);
        }
        if let Ok(vt) = got {
            if vt.get_local_time() != to_primitive(now_ms) {
                push_v(vs, "C14", "C14.local_time", "now() did not keep the current clock as local time".into(), i);
            }
        }
        stats.bump("op.vouched_time_now");
    }
}

impl World for VtimeWorld {
    fn name(&self) -> &'static str {
        "vtime"
    }
    fn kinds(&self) -> &'static [&'static str] {
        KINDS
    }
    fn serves(&self) -> &'static [&'static str] {
        &["C14", "C19"]
    }
    fn runs(&self, ask: Ask) -> u64 {
        if ask.thorough {
            1_500_000
        } else {
            50_000
        }
    }
    fn process_per_run(&self) -> bool {
        true
    }
    fn components(&self) -> (Vec<&'static str>, Vec<&'static str>) {
        (
            vec!["vouched_time::VouchedTime (new, check, now, get_local_time)", "vouched_time::nfs_voucher (add_trusted_path, observe_file_time, maybe_observe_file_time, scan_base_time, get_base_time, get_base_time_unlocked, should_refresh_base_time)", "vouched_time::AtomicBaseTime (static instance, pass-through atomics)", "real files (open, set_times, fstat) in a per-run scratch directory"],
            vec!["the wall clock (hook H3b: SimClock)", "file device ids and change times (hook H3c: SimFileServer with per-device clock skew)", "the base-time provider of VouchedTime::now (closure scripted by the plan)", "left real on purpose: the 100 ms Instant-based refresh throttle (now = None entry points run on fresh threads, so it is unset)"],
        )
    }
    fn rule(&self) -> &'static str {
        "one run = one history in a fresh OS process: clock advances/jumps/skews, files created on trusted, untrusted and later-trusted devices with change-times older than, equal to and newer than the base, trust/observe/maybe_observe/scan/get calls with 'now' on both sides of the refresh threshold, and VouchedTime::new/now calls on triples around both window edges, the epoch, the calendar limits and 2^64; non-trivial = at least 6 calls; distinct = distinct operation-kind sequence"
    }
    fn generate(&self, seed: u64, index: u64, ask: Ask) -> Plan {
        let mut rng = Rng::new(crate::prng::mix(&[seed, 0x7713e, index]));
        let mut knobs = BTreeMap::new();
        knobs.insert("start_offset".into(), rng.below(1_000_000));
        let mut ops = Vec::new();
        let n = rng.range(3, if ask.thorough { 60 } else { 40 });
        let c14 = ask.prop == "C14";
        for _ in 0..n {
            let r = rng.below(100);
            let k: &'static str = if c14 {
                match r {
                    0..=9 => "advance",
                    10..=24 => "jump",
                    25..=59 => "vnew",
                    60..=94 => "vnow",
                    _ => "get",
                }
            } else {
                match r {
                    0..=11 => "advance",
                    12..=15 => "jump",
                    16..=19 => "skew",
                    20..=31 => "mkfile",
                    32..=37 => "write",
                    38..=40 => "movedev",
                    41..=50 => "trust",
                    51..=64 => "observe",
                    65..=71 => "maybe_observe",
                    72..=78 => "scan",
                    79..=90 => "get",
                    91..=93 => "get_unlocked",
                    94..=96 => "should",
                    _ => "vnow",
                }
            };
            let mut a = [rng.below(1 << 16), rng.below(1 << 16), rng.below(1 << 16), rng.next() >> 1];
            if let Some(prev) = ops.last() {
                let prev: &Op = prev;
                if prev.k == k && matches!(k, "vnow" | "vnew") && rng.chance(1, 3) {
                    // Same time source answer again, other voucher (or the same).
                    a[0] = prev.a[0];
                    a[1] = prev.a[1];
                }
            }
            ops.push(Op::new(k, a));
        }
        Plan { world: "vtime", mode: if c14 { "window".into() } else { "nfs".into() }, seed, index, knobs, ops }
    }
    fn execute(&self, plan: &Plan, stats: &mut Stats) -> Outcome {
        let mut log = LogHash::new();
        let mut vs = Vec::new();
        let at = std::cell::Cell::new(0usize);
        let result = std::panic::catch_unwind(AssertUnwindSafe(|| {
            run_history(plan, stats, &mut log, &mut vs, &at);
        }));
        if let Err(e) = result {
            let msg = crate::w_iovec::panic_message(&e);
            if msg.starts_with("harness:") {
                eprintln!("HARNESS ERROR: {}", msg);
                std::process::exit(2);
            }
            let i = at.get();
            let kind = plan.ops.get(i).map(|o| o.k).unwrap_or("?");
            let p = if matches!(kind, "vnow" | "vnew") { "C14" } else { "C19" };
            vs.push(Violation { prop: p, inv: format!("{}.panic", p), detail: format!("panic during {}: {}", kind, crate::driver::last_panic_location(&msg)), at_op: i, key: String::new() });
        }
        log.u64(vs.len() as u64);
        Outcome { violations: vs, log_hash: log.0, nontrivial: plan.ops.len() >= 6 }
    }
}


// ---------------------------------------------------------------------------
// Helpers for the `nfsthreads` world (w_threads.rs), which drives the same
// module functions from several simulated threads.
// ---------------------------------------------------------------------------

pub struct NfsFixture {
    pub dir: PathBuf,
    pub paths: Vec<PathBuf>,
    pub files: Vec<std::fs::File>,
}

/// Creates `n` files on the given devices with the given change times and
/// registers the clock and file hooks.
pub fn nfs_fixture(n: usize, devs: &[u64], now_ms: i128) -> NfsFixture {
    register_hooks();
    let dir = std::env::temp_dir().join(format!("woodpile-nfsthreads-{}", std::process::id()));
    let _ = std::fs::create_dir_all(&dir);
    let mut fx = NfsFixture { dir: dir.clone(), paths: Vec::new(), files: Vec::new() };
    let mut st = state();
    st.now_ms = now_ms;
    st.files = (0..n).map(|_| None).collect();
    for i in 0..n {
        let path = dir.join(format!("f{}", i));
        let f = std::fs::File::options().read(true).write(true).create(true).truncate(false).open(&path).expect("harness: cannot create file");
        let _ = f.set_modified(std::time::SystemTime::now() + std::time::Duration::from_secs(7_200));
        let ino = f.metadata().expect("harness: stat").ino();
        let dev = DEVICES[(devs[i % devs.len()] as usize) % DEVICES.len()];
        let ctime = st.server_now(dev);
        st.files[i] = Some(SimFile { ino, dev, ctime_ms: ctime });
        st.by_ino.insert(ino, i);
        fx.paths.push(path);
        fx.files.push(f);
    }
    fx
}

pub fn nfs_advance(ms: i128) {
    state().now_ms += ms;
}

pub fn nfs_now() -> time::OffsetDateTime {
    to_datetime(state().now_ms)
}

/// A file changed on its server: its change time becomes the server's now.
pub fn nfs_write(slot: usize) {
    let mut st = state();
    if let Some(dev) = st.files.get(slot).and_then(|f| f.as_ref()).map(|f| f.dev) {
        let t = st.server_now(dev);
        st.files[slot].as_mut().unwrap().ctime_ms = t;
    }
}

pub fn nfs_file_info(slot: usize) -> Option<(u64, u64)> {
    let st = state();
    st.files.get(slot).and_then(|f| f.as_ref()).map(|f| (f.dev, f.ctime_ms))
}

pub fn nfs_device(i: u64) -> u64 {
    DEVICES[(i as usize) % DEVICES.len()]
}
