//! World T: real `AtomicBaseTime` code on real OS threads that run one at a
//! time under a baton scheduler owned by the simulator, with the values of
//! the atomics held in a release/acquire view memory model (promise free:
//! every execution it produces is allowed by the C++/Rust model).
//!
//! Serves C13 (history oracle) and C18 (stalled-writer fault enumeration).
use std::cell::Cell;
use std::collections::BTreeMap;
use std::sync::atomic::Ordering;
use std::sync::Condvar;
use std::sync::Mutex;
use std::sync::MutexGuard;

use vouched_time::verif_seams::SyncHooks;
use vouched_time::AtomicBaseTime;

use crate::plan::*;
use crate::prng::LogHash;
use crate::prng::Rng;

pub struct ThreadsWorld;

pub const KINDS: &[&str] = &["call", "post", "poll", "freeze", "badcall", "churn"];

const MAX_THREADS: usize = 6;
/// Per-thread cap on hook events (a thread makes at most 8 calls of at most
/// 8 + 3 x 8 steps each on a correct tree).
const STEP_CAP: u32 = 600;
/// A snapshot run alone (nobody else moves) reads the sequence word, the two
/// slot words and the sequence word again: 4 loads.  The property only says
/// "bounded, and no retry unless a write completed", so a couple of extra loads
/// are tolerated; a needless second pass (7 loads) is not.
const SOLO_SNAPSHOT_MAX_LOADS: usize = 6;
const FLAG_BASE: usize = 0x10;
const N_FLAGS: usize = 4;
/// Flags are pre-registered as locations 0..4; the first real atomic any
/// public operation touches is the sequence word.
const SEQ_LOC: usize = N_FLAGS;
const VOUCH: raffle::VouchingParameters = raffle::VouchingParameters::parse_or_die(
    "VOUCH-773ec2a0e62c20cd-f9e079b78e895091-fc1da7b1b77c57cb-594b9cce3091464a",
);

thread_local! {
    static TID: Cell<usize> = const { Cell::new(usize::MAX) };
}

struct AbortRun;

#[derive(Clone, Copy, Debug, PartialEq, Eq)]
enum Status {
    Ready,
    Finished,
    Frozen,
}

#[derive(Clone, Copy, Debug)]
enum Pending {
    Start,
    Load { addr: usize, order: Ordering, init: u64 },
    Store { addr: usize, val: u64, order: Ordering },
    /// Atomic read-modify-write: add `delta` (two's complement) to the latest value.
    Rmw { addr: usize, delta: u64, init: u64 },
    Lock { addr: usize },
    TryLock { addr: usize },
    Unlock { addr: usize },
}

#[derive(Clone, Debug)]
struct Msg {
    val: u64,
    /// Release view attached to the message (None for relaxed stores and
    /// for the initial value).
    view: Option<Vec<usize>>,
}

#[derive(Clone, Debug)]
enum Ev {
    Load { loc: usize, val: u64, ts: usize, latest: bool },
    Store { loc: usize, val: u64 },
    Lock { ok: bool, blocking: bool },
    Unlock,
}

struct ThreadSt {
    status: Status,
    pending: Option<Pending>,
    steps: u32,
    view: Vec<usize>,
    events: Vec<Ev>,
    /// Global index of each event (total order of the run).
    at: Vec<u64>,
    solo: bool,
    writer: bool,
    prio: u64,
    arrived: bool,
}

#[derive(Clone, Debug)]
enum Note {
    CallStart { tid: usize, kind: u64, arg: u64, seq_floor: u64, ev: usize, gstep: u64 },
    CallEnd { tid: usize, kind: u64, base: u64, voucher_ok: bool, flag: bool, ev: usize, gstep: u64 },
    Panic { tid: usize, msg: String },
    Overrun { tid: usize },
    BadCall { tid: usize, panicked: bool },
}

struct Core {
    active: bool,
    running: Option<usize>,
    quiescent: bool,
    abort: bool,
    threads: Vec<ThreadSt>,
    locs: BTreeMap<usize, usize>,
    msgs: Vec<Vec<Msg>>,
    mutex_owner: BTreeMap<usize, Option<usize>>,
    mutex_view: BTreeMap<usize, Vec<usize>>,
    rng: Rng,
    sc: bool,
    policy: u64,
    change_points: Vec<u64>,
    gstep: u64,
    freeze: BTreeMap<usize, u32>,
    notes: Vec<Note>,
    rr_next: usize,
    stale_reads: u64,
    handoffs: u64,
    gev: u64,
}

struct Sim {
    core: Mutex<Core>,
    cv: Condvar,
}

static SIM: Sim = Sim {
    core: Mutex::new(Core {
        active: false,
        running: None,
        quiescent: false,
        abort: false,
        threads: Vec::new(),
        locs: BTreeMap::new(),
        msgs: Vec::new(),
        mutex_owner: BTreeMap::new(),
        mutex_view: BTreeMap::new(),
        rng: Rng::from_state([1, 2, 3, 4]),
        sc: true,
        policy: 0,
        change_points: Vec::new(),
        gstep: 0,
        freeze: BTreeMap::new(),
        notes: Vec::new(),
        rr_next: 0,
        stale_reads: 0,
        handoffs: 0,
        gev: 0,
    }),
    cv: Condvar::new(),
};

fn core() -> MutexGuard<'static, Core> {
    match SIM.core.lock() {
        Ok(g) => g,
        Err(p) => p.into_inner(),
    }
}

impl Core {
    fn loc(&mut self, addr: usize, init: u64) -> usize {
        if let Some(l) = self.locs.get(&addr) {
            return *l;
        }
        let l = self.msgs.len();
        self.locs.insert(addr, l);
        self.msgs.push(vec![Msg { val: init, view: None }]);
        for t in self.threads.iter_mut() {
            t.view.push(0);
        }
        l
    }

    fn join(view: &mut Vec<usize>, other: &[usize]) {
        for (i, o) in other.iter().enumerate() {
            if i < view.len() {
                view[i] = view[i].max(*o);
            } else {
                view.push(*o);
            }
        }
    }

    fn enabled_basic(&self, t: usize) -> bool {
        let th = &self.threads[t];
        if th.status != Status::Ready {
            return false;
        }
        match th.pending {
            None => false,
            Some(Pending::Lock { addr }) => self.mutex_owner.get(&addr).copied().flatten().is_none(),
            Some(_) => true,
        }
    }

    /// Solo threads only run once no other thread can take a step (all of
    /// them finished, stalled by the plan, or blocked on a lock).
    fn enabled_set(&self) -> Vec<usize> {
        let normal: Vec<usize> = (0..self.threads.len()).filter(|t| !self.threads[*t].solo && self.enabled_basic(*t)).collect();
        if !normal.is_empty() {
            return normal;
        }
        // One at a time, in thread order: "then one thread is run alone".
        (0..self.threads.len()).filter(|t| self.threads[*t].solo && self.enabled_basic(*t)).take(1).collect()
    }

    /// Picks the next thread to run (or declares quiescence).
    fn schedule_next(&mut self, current: Option<usize>) {
        let enabled: Vec<usize> = self.enabled_set();
        if enabled.is_empty() {
            self.running = None;
            self.quiescent = true;
            return;
        }
        self.gstep += 1;
        if self.change_points.contains(&self.gstep) {
            if let Some(c) = current {
                // PCT: the running thread drops to the lowest priority.
                self.threads[c].prio = self.gstep.wrapping_neg();
            }
        }
        let pick = match self.policy {
            1 => *enabled.iter().max_by_key(|t| self.threads[**t].prio).unwrap(),
            2 => {
                // Reader starvation: writers run eight times as often.
                let w: Vec<u64> = enabled.iter().map(|t| if self.threads[*t].writer { 8 } else { 1 }).collect();
                enabled[self.rng.weighted(&w)]
            }
            3 => {
                let n = self.threads.len();
                let mut p = enabled[0];
                for k in 0..n {
                    let c = (self.rr_next + k) % n;
                    if enabled.contains(&c) {
                        p = c;
                        break;
                    }
                }
                self.rr_next = (p + 1) % n;
                p
            }
            4 => match current {
                // Run-to-completion bias: long uninterrupted stretches.
                Some(c) if enabled.contains(&c) && self.rng.chance(9, 10) => c,
                _ => enabled[self.rng.below(enabled.len() as u64) as usize],
            },
            _ => enabled[self.rng.below(enabled.len() as u64) as usize],
        };
        if current != Some(pick) {
            self.handoffs += 1;
        }
        self.running = Some(pick);
    }

    /// Performs the pending operation of the scheduled thread.
    fn perform(&mut self, tid: usize) -> u64 {
        let p = self.threads[tid].pending.take().expect("pending op");
        self.gev += 1;
        let before = self.threads[tid].events.len();
        let r = self.perform_inner(tid, p);
        let gev = self.gev;
        let th = &mut self.threads[tid];
        while th.at.len() < th.events.len() {
            th.at.push(gev);
        }
        let _ = before;
        r
    }

    fn perform_inner(&mut self, tid: usize, p: Pending) -> u64 {
        match p {
            Pending::Start => 0,
            Pending::Load { addr, order, init } => {
                let l = self.loc(addr, init);
                let floor = self.threads[tid].view[l];
                let last = self.msgs[l].len() - 1;
                let ts = if self.sc || floor == last || self.rng.chance(1, 2) {
                    last
                } else {
                    floor + self.rng.below((last - floor + 1) as u64) as usize
                };
                if ts != last {
                    self.stale_reads += 1;
                }
                let msg = self.msgs[l][ts].clone();
                self.threads[tid].view[l] = ts;
                if matches!(order, Ordering::Acquire | Ordering::SeqCst | Ordering::AcqRel) {
                    if let Some(v) = &msg.view {
                        Core::join(&mut self.threads[tid].view, v);
                    }
                }
                self.threads[tid].events.push(Ev::Load { loc: l, val: msg.val, ts, latest: ts == last });
                msg.val
            }
            Pending::Store { addr, val, order } => {
                let l = self.loc(addr, 0);
                let ts = self.msgs[l].len();
                self.threads[tid].view[l] = ts;
                let view = if matches!(order, Ordering::Release | Ordering::SeqCst | Ordering::AcqRel) {
                    Some(self.threads[tid].view.clone())
                } else {
                    None
                };
                self.msgs[l].push(Msg { val, view });
                self.threads[tid].events.push(Ev::Store { loc: l, val });
                0
            }
            Pending::Rmw { addr, delta, init } => {
                // An RMW reads the latest message in modification order and appends
                // its own right after it (atomicity); relaxed, so no view transfer.
                let l = self.loc(addr, init);
                let last = self.msgs[l].len() - 1;
                let old = self.msgs[l][last].val;
                let new = old.wrapping_add(delta);
                self.threads[tid].view[l] = last + 1;
                self.msgs[l].push(Msg { val: new, view: None });
                self.threads[tid].events.push(Ev::Load { loc: l, val: old, ts: last, latest: true });
                self.threads[tid].events.push(Ev::Store { loc: l, val: new });
                old
            }
            Pending::Lock { addr } | Pending::TryLock { addr } => {
                let blocking = matches!(p, Pending::Lock { .. });
                let free = self.mutex_owner.get(&addr).copied().flatten().is_none();
                if free {
                    self.mutex_owner.insert(addr, Some(tid));
                    if let Some(v) = self.mutex_view.get(&addr).cloned() {
                        Core::join(&mut self.threads[tid].view, &v);
                    }
                } else {
                    assert!(!blocking, "harness: blocking lock scheduled while the mutex is owned");
                }
                self.threads[tid].events.push(Ev::Lock { ok: free, blocking });
                free as u64
            }
            Pending::Unlock { addr } => {
                self.mutex_owner.insert(addr, None);
                let v = self.threads[tid].view.clone();
                self.mutex_view.insert(addr, v);
                self.threads[tid].events.push(Ev::Unlock);
                0
            }
        }
    }
}

/// One scheduling point of thread `tid`: publish the pending operation, let
/// the scheduler pick who runs, wait for the baton, perform the operation.
fn step(tid: usize, pending: Pending) -> u64 {
    let mut g = core();
    g.threads[tid].pending = Some(pending);
    g.threads[tid].steps += 1;
    if g.threads[tid].steps > STEP_CAP {
        // Far beyond anything a bounded number of calls can need: stop the run.
        g.notes.push(Note::Overrun { tid });
        g.running = None;
        g.quiescent = true;
        g.abort = true;
        SIM.cv.notify_all();
        drop(g);
        std::panic::resume_unwind(Box::new(AbortRun));
    }
    if g.freeze.get(&tid) == Some(&g.threads[tid].steps) {
        // Stall fault: this thread never runs again.
        g.threads[tid].status = Status::Frozen;
    }
    g.schedule_next(Some(tid));
    SIM.cv.notify_all();
    wait_for_baton(g, tid)
}

fn wait_for_baton(mut g: MutexGuard<'static, Core>, tid: usize) -> u64 {
    loop {
        if g.abort {
            drop(g);
            std::panic::resume_unwind(Box::new(AbortRun));
        }
        if g.running == Some(tid) {
            break;
        }
        g = match SIM.cv.wait(g) {
            Ok(g) => g,
            Err(p) => p.into_inner(),
        };
    }
    g.perform(tid)
}

/// A new thread parks here until the scheduler first picks it; arriving is
/// not a scheduling decision, so OS timing cannot influence the run.
fn wait_start(tid: usize) {
    let mut g = core();
    g.threads[tid].arrived = true;
    SIM.cv.notify_all();
    wait_for_baton(g, tid);
}

fn finish(tid: usize) {
    let mut g = core();
    g.threads[tid].status = Status::Finished;
    g.threads[tid].pending = None;
    g.schedule_next(Some(tid));
    SIM.cv.notify_all();
}

fn note(n: Note) {
    core().notes.push(n);
}

pub struct Hooks;

impl SyncHooks for Hooks {
    fn active(&self) -> bool {
        TID.with(|t| t.get()) != usize::MAX && !std::thread::panicking()
    }
    fn atomic_load(&self, addr: usize, real: &std::sync::atomic::AtomicU64, order: Ordering) -> u64 {
        let tid = TID.with(|t| t.get());
        step(tid, Pending::Load { addr, order, init: real.load(Ordering::Relaxed) })
    }
    fn atomic_store(&self, addr: usize, real: &std::sync::atomic::AtomicU64, value: u64, order: Ordering) {
        let tid = TID.with(|t| t.get());
        step(tid, Pending::Store { addr, val: value, order });
        real.store(value, Ordering::Relaxed);
    }
    fn mutex_lock(&self, addr: usize) {
        let tid = TID.with(|t| t.get());
        step(tid, Pending::Lock { addr });
    }
    fn mutex_try_lock(&self, addr: usize) -> bool {
        let tid = TID.with(|t| t.get());
        step(tid, Pending::TryLock { addr }) != 0
    }
    fn mutex_unlock(&self, addr: usize) {
        let tid = TID.with(|t| t.get());
        step(tid, Pending::Unlock { addr });
    }
    fn mutex_unlock_unwinding(&self, addr: usize) {
        // A simulated thread releases the lock while unwinding from a panic
        // of the code under test (e.g. the documented voucher assertion).  The
        // thread holds the baton; release the modelled lock without a
        // scheduling point, and never block or panic here.
        let tid = TID.with(|t| t.get());
        if tid == usize::MAX {
            return;
        }
        let mut g = core();
        if g.abort || g.mutex_owner.get(&addr).copied().flatten() != Some(tid) {
            return;
        }
        g.mutex_owner.insert(addr, None);
        let v = g.threads[tid].view.clone();
        g.mutex_view.insert(addr, v);
        g.gev += 1;
        let gev = g.gev;
        g.threads[tid].events.push(Ev::Unlock);
        g.threads[tid].at.push(gev);
    }
}

impl owning_iovec::verif::CounterHooks for Hooks {
    fn active(&self) -> bool {
        TID.with(|t| t.get()) != usize::MAX && !std::thread::panicking() && COUNTERS_ON.load(Ordering::Relaxed)
    }
    fn load(&self, addr: usize, real: &std::sync::atomic::AtomicUsize) -> usize {
        let tid = TID.with(|t| t.get());
        step(tid, Pending::Load { addr, order: Ordering::Relaxed, init: real.load(Ordering::Relaxed) as u64 }) as usize
    }
    fn store(&self, addr: usize, real: &std::sync::atomic::AtomicUsize, value: usize) {
        let tid = TID.with(|t| t.get());
        step(tid, Pending::Store { addr, val: value as u64, order: Ordering::Relaxed });
        real.store(value, Ordering::Relaxed);
    }
    fn fetch_add(&self, addr: usize, real: &std::sync::atomic::AtomicUsize, delta: isize) -> usize {
        let tid = TID.with(|t| t.get());
        let old = step(tid, Pending::Rmw { addr, delta: delta as i64 as u64, init: real.load(Ordering::Relaxed) as u64 });
        real.store((old as usize).wrapping_add(delta as usize), Ordering::Relaxed);
        old as usize
    }
}

/// The counter seam is only switched on inside the `chunkthreads` world.
static COUNTERS_ON: std::sync::atomic::AtomicBool = std::sync::atomic::AtomicBool::new(false);

pub static HOOKS: Hooks = Hooks;

pub fn register_hooks() {
    static ONCE: std::sync::Once = std::sync::Once::new();
    ONCE.call_once(|| {
        vouched_time::verif_seams::register_sync_hooks(&HOOKS);
        owning_iovec::verif::register_counter_hooks(&HOOKS);
    });
}

const NFS_FILES_N: usize = 3;
static NFS_FILES: Mutex<Vec<std::fs::File>> = Mutex::new(Vec::new());

fn nfs_active() -> bool {
    !NFS_FILES.lock().map(|g| g.is_empty()).unwrap_or(true)
}

fn nfs_file(slot: usize) -> std::fs::File {
    NFS_FILES.lock().expect("harness: nfs files")[slot].try_clone().expect("harness: dup")
}

/// Base time value for argument `arg` of a call (unique per argument, so a
/// returned pair identifies its update).
fn base_of(arg: u64) -> u64 {
    if arg < (1 << 40) {
        1_000 + arg * 10
    } else {
        // Raw value: the whole 64-bit range is legal for a base time.
        arg
    }
}

fn thread_body(tid: usize, abt: &AtomicBaseTime, program: Vec<Op>) {
    TID.with(|t| t.set(tid));
    let r = std::panic::catch_unwind(std::panic::AssertUnwindSafe(|| {
        wait_start(tid);
        for op in &program {
            match op.k {
                "call" => {
                    let kind = if nfs_active() { op.a[1] % 8 } else { op.a[1] % 3 };
                    let arg = op.a[2];
                    if kind == 7 {
                        // Harness step (no scheduling point): time passes, a file changes.
                        crate::w_vtime::nfs_advance([1i128, 500, 1_001, 1_994, 3_000, 60_000][(arg % 6) as usize]);
                        crate::w_vtime::nfs_write((arg / 6) as usize % NFS_FILES_N);
                        continue;
                    }
                    {
                        let mut g = core();
                        let seq_floor = if g.msgs.len() > SEQ_LOC {
                            if g.sc {
                                // Sequential consistency: everything committed so far.
                                g.msgs[SEQ_LOC].last().unwrap().val
                            } else {
                                let ts = g.threads[tid].view[SEQ_LOC];
                                g.msgs[SEQ_LOC][ts].val
                            }
                        } else {
                            0
                        };
                        let ev = g.threads[tid].events.len();
                        let gstep = g.gstep;
                        g.notes.push(Note::CallStart { tid, kind, arg, seq_floor, ev, gstep });
                    }
                    let (base, voucher_ok, flag) = match kind {
                        0 => {
                            let (b, v) = abt.snapshot();
                            (b, VOUCH.checking_parameters().check(b, v), false)
                        }
                        1 => {
                            abt.update((base_of(arg), VOUCH.vouch(base_of(arg))));
                            (base_of(arg), true, true)
                        }
                        2 => {
                            let ok = abt.try_update((base_of(arg), VOUCH.vouch(base_of(arg))));
                            (base_of(arg), true, ok)
                        }
                        3 => {
                            let f = nfs_file(arg as usize % NFS_FILES_N);
                            match vouched_time::nfs_voucher::observe_file_time(&f) {
                                Ok((_, Some((b, v)))) => (b, VOUCH.checking_parameters().check(b, v), true),
                                Ok((_, None)) => (0, true, false),
                                Err(_) => (0, true, false),
                            }
                        }
                        4 => {
                            let ok = vouched_time::nfs_voucher::scan_base_time().is_ok();
                            (0, true, ok)
                        }
                        5 => {
                            let (b, v) = vouched_time::nfs_voucher::get_base_time_unlocked(crate::w_vtime::nfs_now()).expect("unlocked never fails");
                            (b, VOUCH.checking_parameters().check(b, v), false)
                        }
                        _ => match vouched_time::nfs_voucher::get_base_time(crate::w_vtime::nfs_now()) {
                            Ok((b, v)) => (b, VOUCH.checking_parameters().check(b, v), true),
                            Err(_) => (0, true, false),
                        },
                    };
                    let mut g = core();
                    let ev = g.threads[tid].events.len();
                    let gstep = g.gstep;
                    g.notes.push(Note::CallEnd { tid, kind, base, voucher_ok, flag, ev, gstep });
                }
                "churn" => {
                    // An unrelated iovec of this thread's own: arena chunks are created
                    // and released, which touches the process-wide live-chunk counters.
                    let size = 1 + (op.a[1] % 200) as usize;
                    let mut iov: owning_iovec::OwningIovec<'static> = owning_iovec::OwningIovec::new();
                    iov.push_copy(&vec![tid as u8 + 1; size]);
                    match op.a[2] % 4 {
                        0 => {}
                        1 => {
                            let c = iov.clone();
                            drop(iov);
                            iov = c;
                        }
                        2 => {
                            let t = iov.take();
                            iov.push_copy(&[7u8; 5]);
                            drop(t);
                        }
                        _ => {
                            iov.arena().flush_cache();
                            iov.push_copy(&[9u8; 70]);
                        }
                    }
                    drop(iov);
                }
                "badcall" => {
                    // Caller error: an update whose voucher does not match.  The
                    // documented outcome is a panic (or nothing, if the monotonic
                    // filter drops it first); whatever happens, the cell must keep
                    // working for everybody else afterwards.
                    let b = base_of(op.a[2]);
                    let r = std::panic::catch_unwind(std::panic::AssertUnwindSafe(|| {
                        if op.a[1] % 2 == 0 {
                            abt.update((b, VOUCH.vouch(b ^ 1)));
                        } else {
                            let _ = abt.try_update((b, VOUCH.vouch(b ^ 1)));
                        }
                    }));
                    match r {
                        Ok(()) => note(Note::BadCall { tid, panicked: false }),
                        Err(e) => {
                            if e.downcast_ref::<AbortRun>().is_some() {
                                std::panic::resume_unwind(e);
                            }
                            note(Note::BadCall { tid, panicked: true });
                        }
                    }
                }
                "post" => {
                    step(tid, Pending::Store { addr: FLAG_BASE + (op.a[1] % 4) as usize, val: 1, order: Ordering::Release });
                }
                "poll" => {
                    step(tid, Pending::Load { addr: FLAG_BASE + (op.a[1] % 4) as usize, order: Ordering::Acquire, init: 0 });
                }
                _ => {}
            }
        }
    }));
    if let Err(e) = r {
        if e.downcast_ref::<AbortRun>().is_none() {
            let msg = crate::w_iovec::panic_message(&e);
            note(Note::Panic { tid, msg: crate::driver::last_panic_location(&msg) });
        } else {
            TID.with(|t| t.set(usize::MAX));
            return;
        }
    }
    TID.with(|t| t.set(usize::MAX));
    finish(tid);
}

struct RunResult {
    notes: Vec<Note>,
    threads: Vec<(Status, Vec<Ev>, u32, bool, bool)>,
    blocked: Vec<usize>,
    stale_reads: u64,
    handoffs: u64,
    seq_stores: Vec<(u64, u64)>, // (value, gstep order index)
    ats: Vec<Vec<u64>>,
    mutex_held_by: Option<usize>,
}

fn run_plan(plan: &Plan) -> RunResult {
    register_hooks();
    let nthreads = (plan.knob("threads") as usize).clamp(1, MAX_THREADS);
    let solo_mask = plan.knob("solo_mask");
    let abt = AtomicBaseTime::new();
    // Programs per thread.
    let mut programs: Vec<Vec<Op>> = vec![Vec::new(); nthreads];
    let mut freeze = BTreeMap::new();
    for op in &plan.ops {
        let t = (op.a[0] as usize) % nthreads;
        match op.k {
            "freeze" => {
                freeze.insert(t, (op.a[1] as u32).max(1));
            }
            _ => programs[t].push(op.clone()),
        }
    }
    {
        let mut g = core();
        let mut rng = Rng::new(plan.knob("sched_seed") ^ 0x7ead);
        g.active = true;
        g.running = None;
        g.quiescent = false;
        g.abort = false;
        g.locs.clear();
        g.msgs.clear();
        g.mutex_owner.clear();
        g.mutex_view.clear();
        g.sc = plan.knob("sc") != 0;
        g.policy = plan.knob("policy");
        g.change_points = (0..plan.knob("pct_d")).map(|_| rng.range(1, 80)).collect();
        g.gstep = 0;
        g.freeze = freeze;
        g.notes.clear();
        g.rr_next = 0;
        g.stale_reads = 0;
        g.handoffs = 0;
        g.threads = (0..nthreads)
            .map(|t| ThreadSt {
                status: Status::Ready,
                pending: Some(Pending::Start),
                steps: 0,
                view: Vec::new(),
                events: Vec::new(),
                solo: solo_mask & (1 << t) != 0,
                writer: programs[t].iter().any(|o| o.k == "call" && o.a[1] % 3 != 0),
                prio: rng.next() >> 1,
                at: Vec::new(),
                arrived: false,
            })
            .collect();
        g.rng = rng;
        g.gev = 0;
        for f in 0..N_FLAGS {
            g.loc(FLAG_BASE + f, 0);
        }
    }
    std::thread::scope(|s| {
        let mut handles = Vec::new();
        for (t, program) in programs.into_iter().enumerate() {
            let abt = &abt;
            handles.push(
                std::thread::Builder::new()
                    .stack_size(256 * 1024)
                    .spawn_scoped(s, move || thread_body(t, abt, program))
                    .expect("harness: cannot spawn thread"),
            );
        }
        // Wait until every thread is parked at its start, then hand out the baton.
        {
            let mut g = core();
            while !g.threads.iter().all(|t| t.arrived) {
                g = match SIM.cv.wait(g) {
                    Ok(g) => g,
                    Err(p) => p.into_inner(),
                };
            }
            g.schedule_next(None);
            SIM.cv.notify_all();
            while !g.quiescent {
                g = match SIM.cv.wait(g) {
                    Ok(g) => g,
                    Err(p) => p.into_inner(),
                };
            }
            g.abort = true;
            SIM.cv.notify_all();
        }
        for h in handles {
            let _ = h.join();
        }
    });
    let mut g = core();
    g.active = false;
    let blocked: Vec<usize> = g
        .threads
        .iter()
        .enumerate()
        .filter(|(_, t)| t.status == Status::Ready && matches!(t.pending, Some(Pending::Lock { .. })))
        .map(|(i, _)| i)
        .collect();
    let mut seq_stores = Vec::new();
    for t in &g.threads {
        for e in &t.events {
            if let Ev::Store { loc, val } = e {
                if *loc == SEQ_LOC {
                    seq_stores.push((*val, 0));
                }
            }
        }
    }
    seq_stores.sort();
    let mutex_held_by = g.mutex_owner.values().next().copied().flatten();
    RunResult {
        notes: std::mem::take(&mut g.notes),
        threads: g.threads.iter().map(|t| (t.status, t.events.clone(), t.steps, t.solo, t.writer)).collect(),
        blocked,
        ats: g.threads.iter().map(|t| t.at.clone()).collect(),
        stale_reads: g.stale_reads,
        handoffs: g.handoffs,
        seq_stores,
        mutex_held_by,
    }
}

/// With VERIF_TRACE set (always, for replays): every hook event in global
/// order - who ran, what it read (and from which message), what it stored.
fn print_trace(r: &RunResult) {
    if std::env::var("VERIF_TRACE").is_err() {
        return;
    }
    let mut all: Vec<(u64, usize, String)> = Vec::new();
    for (i, t) in r.threads.iter().enumerate() {
        for (e, at) in t.1.iter().zip(r.ats[i].iter()) {
            all.push((*at, i, format!("{:?}", e)));
        }
    }
    all.sort();
    for (at, t, e) in all {
        println!("  [{:3}] thread {} {}", at, t, e);
    }
    for n in &r.notes {
        println!("  note {:?}", n);
    }
}

fn push_v(vs: &mut Vec<Violation>, prop: &'static str, inv: &str, detail: String) {
    if !vs.iter().any(|v| v.inv == inv) {
        vs.push(Violation { prop, inv: inv.to_string(), detail, at_op: usize::MAX, key: String::new() });
    }
}

/// History oracle for C13 and step oracle for C18.
fn judge(plan: &Plan, r: &RunResult, stats: &mut Stats, log: &mut LogHash) -> Vec<Violation> {
    let mut vs = Vec::new();
    let sc = plan.knob("sc") != 0;
    let frozen_any = r.threads.iter().any(|t| t.0 == Status::Frozen);

    // --- panics (the internal voucher assertion fires on a torn pair) -----
    for n in &r.notes {
        if let Note::Panic { tid, msg } = n {
            let p = if r.threads[*tid].3 { "C18" } else { "C13" };
            push_v(&mut vs, "C13", "C13.panic", format!("thread {} panicked: {}", tid, msg));
            if p == "C18" {
                push_v(&mut vs, "C18", "C18.panic", format!("solo thread {} panicked: {}", tid, msg));
            }
        }
    }

    for n in &r.notes {
        if let Note::Overrun { tid } = n {
            push_v(&mut vs, "C18", "C18.unbounded_steps", format!("thread {} took more than {} steps without finishing its calls", tid, STEP_CAP));
            push_v(&mut vs, "C13", "C13.step_overrun", format!("thread {} took more than {} steps without finishing its calls", tid, STEP_CAP));
        }
    }

    for n in &r.notes {
        if let Note::BadCall { panicked, .. } = n {
            stats.bump(if *panicked { "fault.update_with_wrong_voucher_panicked" } else { "fault.update_with_wrong_voucher_dropped" });
        }
    }

    // --- deadlock / blocked threads ---------------------------------------
    for b in &r.blocked {
        let (_, events, _, solo, _) = &r.threads[*b];
        let _ = events;
        if *solo {
            push_v(&mut vs, "C18", "C18.blocked", format!("thread {} run alone after the writer(s) stalled could not finish: it waits for a lock", b));
        } else if !frozen_any {
            push_v(&mut vs, "C13", "C13.deadlock", format!("thread {} is blocked although no thread was stalled by the plan", b));
        }
    }

    // --- reconstruct the update history in lock (= sequence) order --------
    // Calls, in order of their CallStart notes.
    struct Call {
        tid: usize,
        kind: u64,
        arg: u64,
        seq_floor: u64,
        ev0: usize,
        ev1: Option<usize>,
        base: u64,
        voucher_ok: bool,
        flag: bool,
        g0: u64,
    }
    let mut calls: Vec<Call> = Vec::new();
    for n in &r.notes {
        match n {
            Note::CallStart { tid, kind, arg, seq_floor, ev, gstep } => calls.push(Call { tid: *tid, kind: *kind, arg: *arg, seq_floor: *seq_floor, ev0: *ev, ev1: None, base: 0, voucher_ok: true, flag: false, g0: *gstep }),
            Note::CallEnd { tid, base, voucher_ok, flag, ev, .. } => {
                if let Some(c) = calls.iter_mut().rev().find(|c| c.tid == *tid && c.ev1.is_none()) {
                    c.ev1 = Some(*ev);
                    c.base = *base;
                    c.voucher_ok = *voucher_ok;
                    c.flag = *flag;
                }
            }
            _ => {}
        }
    }
    // Accepted updates: base -> sequence number, from the events of each call.
    // base -> highest sequence number of an accepted update carrying it
    // (equal bases are legal, so a base may identify several updates; the
    // most recent one is the most lenient reading).
    let mut accepted: BTreeMap<u64, u64> = BTreeMap::new();
    accepted.insert(0, 0);
    let mut offered: BTreeMap<u64, bool> = BTreeMap::new();
    for c in calls.iter().filter(|c| c.kind != 0) {
        let evs = &r.threads[c.tid].1;
        let end = c.ev1.unwrap_or(evs.len());
        let stored_seq = evs[c.ev0..end].iter().find_map(|e| match e {
            Ev::Store { loc, val } if *loc == SEQ_LOC => Some(*val),
            _ => None,
        });
        let o = offered.entry(base_of(c.arg)).or_insert(false);
        *o = *o || stored_seq.is_some();
        if let Some(s) = stored_seq {
            let e = accepted.entry(base_of(c.arg)).or_insert(s);
            *e = (*e).max(s);
        }
        // Monotonic filter: what was current when this call held the lock?
        let got_lock = evs[c.ev0..end].iter().any(|e| matches!(e, Ev::Lock { ok: true, .. }));
        if got_lock {
            // The sequence value it read under the lock tells which update was current.
            let cur_seq = evs[c.ev0..end].iter().find_map(|e| match e {
                Ev::Load { loc, val, .. } if *loc == SEQ_LOC => Some(*val),
                _ => None,
            });
            if let Some(cur_seq) = cur_seq {
                // Base of the update with that sequence number.
                let cur_base = if cur_seq == 0 { Some(0) } else { None };
                let cur_base = cur_base.or_else(|| {
                    calls.iter().filter(|o| o.kind != 0).find_map(|o| {
                        let oe = &r.threads[o.tid].1;
                        let oend = o.ev1.unwrap_or(oe.len());
                        oe[o.ev0..oend].iter().find_map(|e| match e {
                            Ev::Store { loc, val } if *loc == SEQ_LOC && *val == cur_seq => Some(base_of(o.arg)),
                            _ => None,
                        })
                    })
                });
                if let Some(cur_base) = cur_base {
                    let newb = base_of(c.arg);
                    let complete = c.ev1.is_some();
                    if newb < cur_base && stored_seq.is_some() {
                        push_v(&mut vs, "C13", "C13.older_accepted", format!("update with base {} was applied over current base {}", newb, cur_base));
                        // The NFS base time is this very cell, driven by concurrent
                        // observe (try_update) and scan (update) calls.
                        push_v(&mut vs, "C19", "C19.concurrent_decrease", format!("two overlapping writers: the base time went from {} back to {}", cur_base, newb));
                    }
                    if newb > cur_base && stored_seq.is_none() && complete {
                        push_v(&mut vs, "C13", "C13.newer_ignored", format!("update with base {} was dropped although the current base was {}", newb, cur_base));
                    }
                    if complete && c.kind == 2 && c.flag != stored_seq.is_some() {
                        push_v(&mut vs, "C13", "C13.try_update_result", format!("try_update returned {} but {} the state", c.flag, if stored_seq.is_some() { "changed" } else { "did not change" }));
                    }
                }
            }
        } else if c.kind == 2 && c.ev1.is_some() && c.flag {
            push_v(&mut vs, "C13", "C13.try_update_result", "try_update returned true without holding the lock".into());
        }
    }

    // --- snapshots -----------------------------------------------------------
    let mut last_seen: BTreeMap<usize, u64> = BTreeMap::new();
    for c in calls.iter().filter(|c| c.kind == 0) {
        let Some(ev1) = c.ev1 else { continue };
        log.u64(c.base);
        if !c.voucher_ok {
            push_v(&mut vs, "C13", "C13.torn", format!("snapshot returned base {} with a voucher for another value", c.base));
            continue;
        }
        let Some(seq) = accepted.get(&c.base).copied() else {
            let why = if offered.contains_key(&c.base) { "an update that was ignored" } else { "no update at all" };
            push_v(&mut vs, "C13", "C13.unknown_pair", format!("snapshot returned base {}, which belongs to {}", c.base, why));
            continue;
        };
        if seq < c.seq_floor {
            push_v(&mut vs, "C13", "C13.stale_snapshot", format!("snapshot by thread {} returned update #{} (base {}) although update #{} happened before the snapshot began ({} mode)", c.tid, seq, c.base, c.seq_floor, if sc { "sequentially consistent" } else { "release/acquire view" }));
        }
        let prev = last_seen.get(&c.tid).copied().unwrap_or(0);
        if c.base < prev {
            push_v(&mut vs, "C13", "C13.went_backwards", format!("thread {} saw base {} after having seen {}", c.tid, c.base, prev));
        }
        last_seen.insert(c.tid, c.base.max(prev));
        // C18: retries only when a write completed during the read.
        let evs = &r.threads[c.tid].1[c.ev0..ev1];
        let loads = evs.iter().filter(|e| matches!(e, Ev::Load { .. })).count();
        let locks = evs.iter().filter(|e| matches!(e, Ev::Lock { .. } | Ev::Unlock)).count();
        if locks > 0 {
            push_v(&mut vs, "C18", "C18.reader_locks", format!("snapshot performed {} lock operation(s)", locks));
        }
        // Judged on work done, not on one implementation's loads per round: a
        // snapshot that saw the sequence word advance by `span` may go round
        // again for each of those writes (and an implementation may spend a
        // second round on the same write); one that saw it stand still must
        // not do more than a single pass.
        let seq_vals: Vec<u64> = evs.iter().filter_map(|e| match e { Ev::Load { loc, val, .. } if *loc == SEQ_LOC => Some(*val), _ => None }).collect();
        let span = seq_vals.iter().max().copied().unwrap_or(0) - seq_vals.iter().min().copied().unwrap_or(0);
        let allowed = SOLO_SNAPSHOT_MAX_LOADS as u64 * (1 + 2 * span.min(1 << 20));
        if loads as u64 > allowed {
            push_v(&mut vs, "C18", "C18.spurious_retry", format!("snapshot made {} atomic loads (a single pass takes at most {}) although the sequence word it observed only advanced by {}", loads, SOLO_SNAPSHOT_MAX_LOADS, span));
        }
        if r.threads[c.tid].3 {
            // Solo run: nobody else moves, so exactly 4 loads and no retry.
            if sc && loads > SOLO_SNAPSHOT_MAX_LOADS {
                push_v(&mut vs, "C18", "C18.solo_steps", format!("snapshot run alone took {} atomic loads; one pass takes 4, a needless second pass 7", loads));
            }
            stats.bump("probe.solo_snapshot_checked");
        }
        if loads > SOLO_SNAPSHOT_MAX_LOADS {
            stats.bump("probe.snapshot_retried");
        }
    }
    // Solo try_update.
    for c in calls.iter().filter(|c| c.kind == 2 && r.threads[c.tid].3) {
        if c.ev1.is_none() {
            continue;
        }
        let held_by_frozen = r.mutex_held_by.map(|o| r.threads[o].0 == Status::Frozen).unwrap_or(false);
        let evs = &r.threads[c.tid].1[c.ev0..c.ev1.unwrap()];
        if evs.iter().any(|e| matches!(e, Ev::Lock { blocking: true, .. })) {
            push_v(&mut vs, "C18", "C18.try_update_blocks", "try_update used a blocking lock operation".into());
        }
        if held_by_frozen && c.flag {
            push_v(&mut vs, "C18", "C18.try_update_result", "try_update returned true while a stalled writer holds the lock".into());
        }
        stats.bump("probe.solo_try_update_checked");
        if held_by_frozen {
            stats.bump("probe.solo_try_update_with_lock_held");
        }
    }
    // Any try_update must never issue a blocking lock.
    for c in calls.iter().filter(|c| c.kind == 2) {
        let evs = &r.threads[c.tid].1;
        let end = c.ev1.unwrap_or(evs.len());
        if evs[c.ev0..end].iter().any(|e| matches!(e, Ev::Lock { blocking: true, .. })) {
            push_v(&mut vs, "C18", "C18.try_update_blocks", "try_update used a blocking lock operation".into());
        }
        let _ = c.g0;
    }
    vs
}

impl World for ThreadsWorld {
    fn name(&self) -> &'static str {
        "threads"
    }
    fn kinds(&self) -> &'static [&'static str] {
        KINDS
    }
    fn serves(&self) -> &'static [&'static str] {
        &["C13", "C18", "C19"]
    }
    fn runs(&self, ask: Ask) -> u64 {
        match (ask.prop, ask.thorough) {
            ("C18", false) => 60_000,
            ("C18", true) => 1_000_000,
            (_, false) => 200_000,
            (_, true) => 3_000_000,
        }
    }
    fn components(&self) -> (Vec<&'static str>, Vec<&'static str>) {
        (
            vec!["vouched_time::AtomicBaseTime (snapshot, update, try_update, advance_once) on real OS threads", "raffle vouchers"],
            vec!["AtomicU64 value storage and Mutex ownership (hook H3a: memory-model messages and views held by the simulator)", "the OS scheduler (replaced by the baton scheduler: exactly one simulated thread runs at a time)"],
        )
    }
    fn rule(&self) -> &'static str {
        "one run = thread programs (1-2 writers x 1-4 update/try_update calls with unique bases incl. equal and older ones, 1-2 readers x 1-4 snapshots, release/acquire flag posts and polls) x scheduling policy (uniform, PCT d<=3, reader starvation, round robin, run-to-completion bias) x memory mode (sequentially consistent or release/acquire views with stale reads) x stall faults (a writer frozen forever at its k-th step, then solo threads run alone); non-trivial = at least 2 threads took steps and at least 12 hook events; distinct = distinct (mode, call-kind sequence) x policy"
    }
    fn generate(&self, seed: u64, index: u64, ask: Ask) -> Plan {
        let mut rng = Rng::new(crate::prng::mix(&[seed, 0x7472, index]));
        let mut knobs = std::collections::BTreeMap::new();
        let mut ops = Vec::new();
        knobs.insert("sched_seed".into(), rng.next() >> 1);
        knobs.insert("sc".into(), rng.chance(1, 3) as u64);
        let policy = rng.below(5);
        knobs.insert("policy".into(), policy);
        if policy == 1 {
            knobs.insert("pct_d".into(), rng.range(1, 3));
        }
        let mut next_arg = 1u64;
        if ask.prop == "C18" && index % 4 == 3 {
            // A share of ordinary concurrent runs with many updates, so that a
            // reader is lapped several times within one snapshot: the reader-side
            // invariants of C18 (no lock operation, no spurious retry) are judged
            // on every snapshot of every run.
            knobs.insert("threads".into(), 3);
            knobs.insert("policy".into(), *rng.pick(&[2u64, 4, 0]));
            for _ in 0..rng.range(4, 7) {
                ops.push(Op::new("call", [0, 1, next_arg, 0]));
                next_arg += 1;
            }
            if rng.chance(1, 2) {
                ops.push(Op::new("freeze", [0, rng.range(20, 56), 0, 0]));
            }
            for r in 1..3u64 {
                for _ in 0..rng.range(1, 3) {
                    ops.push(Op::new("call", [r, 0, 0, 0]));
                }
            }
            return Plan { world: "threads", mode: "lapping".into(), seed, index, knobs, ops };
        }
        if ask.prop == "C18" {
            // Exact step counts need sequential consistency (under the view
            // model a solo reader may legitimately see a stale sequence first).
            knobs.insert("sc".into(), rng.chance(3, 4) as u64);
            // Fault enumeration: writers 0 (and sometimes 1) are stalled at a
            // step enumerated by the run index; then solo threads run alone.
            let two = index % 5 == 4;
            let nw = if two { 2 } else { 1 };
            let nthreads = nw + 2;
            knobs.insert("threads".into(), nthreads as u64);
            knobs.insert("solo_mask".into(), (0b11u64) << nw);
            for w in 0..nw {
                let ncalls = rng.range(1, 3);
                if rng.chance(1, 4) {
                    // An earlier caller error: the lock was poisoned by a panic.
                    ops.push(Op::new("badcall", [w as u64, rng.below(2), 7 + next_arg, 0]));
                }
                for _ in 0..ncalls {
                    let kind = if rng.chance(2, 3) { 1 } else { 2 };
                    ops.push(Op::new("call", [w as u64, kind, next_arg, 0]));
                    next_arg += 1;
                }
                // Steps of one update: lock, load seq, 2 slot loads, 2 slot stores, seq store, unlock (+start).
                let max_steps = 1 + ncalls * 8;
                let k = 1 + (index / 5 + w as u64 * 3) % (max_steps + 1);
                ops.push(Op::new("freeze", [w as u64, k, 0, 0]));
            }
            // Solo thread A: a snapshot (or two); solo thread B: a try_update.
            ops.push(Op::new("call", [nw as u64, 0, 0, 0]));
            if rng.chance(1, 2) {
                ops.push(Op::new("call", [nw as u64, 0, 0, 0]));
            }
            // Offered base: older than, close to, and far ahead of what the writers offer.
            let offered = match rng.below(5) {
                0 => 0,
                1 => 50 + next_arg,
                2 => 400 + next_arg,
                3 => 5_000 + next_arg,
                _ => 1_000_000 + next_arg,
            };
            ops.push(Op::new("call", [nw as u64 + 1, 2, offered, 0]));
            return Plan { world: "threads", mode: if two { "stall-2".into() } else { "stall-1".into() }, seed, index, knobs, ops };
        }
        let (nw, nr) = if ask.thorough && rng.chance(1, 3) {
            (rng.range(1, 3) as usize, rng.range(1, 3) as usize)
        } else {
            (rng.range(1, 2) as usize, rng.range(1, 2) as usize)
        };
        let nthreads = nw + nr;
        knobs.insert("threads".into(), nthreads as u64);
        for w in 0..nw {
            for _ in 0..rng.range(1, 4) {
                let kind = if rng.chance(2, 3) { 1 } else { 2 };
                // Mostly increasing, sometimes equal to or older than an earlier one.
                let arg = match rng.below(8) {
                    0 if next_arg > 1 => rng.range(1, next_arg - 1),
                    1 => {
                        // A jump far ahead (minutes), as after a long pause.
                        next_arg += 10_000 + rng.below(100_000);
                        next_arg - 1
                    }
                    2 if rng.chance(1, 2) => {
                        // Anywhere in the 64-bit range (saturated change times end up at u64::MAX).
                        *rng.pick(&[1u64 << 62, 1 << 63, (1 << 63) + 5, u64::MAX - 1_000, u64::MAX - 1, u64::MAX])
                    }
                    _ => {
                        next_arg += 1;
                        next_arg - 1
                    }
                };
                ops.push(Op::new("call", [w as u64, kind, arg, 0]));
                if rng.chance(1, 12) {
                    // A caller error in between: wrong voucher, any magnitude.
                    let bad = if rng.chance(1, 2) { next_arg + 3 } else { *rng.pick(&[1u64 << 50, 1 << 62, u64::MAX - 7]) };
                    ops.push(Op::new("badcall", [w as u64, rng.below(2), bad, 0]));
                }
                if rng.chance(1, 3) {
                    ops.push(Op::new("post", [w as u64, rng.below(2), 0, 0]));
                }
            }
        }
        for r in 0..nr {
            let t = (nw + r) as u64;
            for _ in 0..rng.range(1, 4) {
                if rng.chance(1, 3) {
                    ops.push(Op::new("poll", [t, rng.below(2), 0, 0]));
                }
                ops.push(Op::new("call", [t, 0, 0, 0]));
            }
        }
        if rng.chance(1, 10) {
            ops.push(Op::new("freeze", [rng.below(nw as u64), rng.range(1, 20), 0, 0]));
        }
        Plan { world: "threads", mode: if knobs["sc"] != 0 { "sc".into() } else { "mm".into() }, seed, index, knobs, ops }
    }
    fn execute(&self, plan: &Plan, stats: &mut Stats) -> Outcome {
        let mut log = LogHash::new();
        let r = run_plan(plan);
        print_trace(&r);
        let violations = judge(plan, &r, stats, &mut log);
        let mut total_events = 0usize;
        let mut active_threads = 0;
        for (i, (status, events, steps, _, _)) in r.threads.iter().enumerate() {
            log.u64(i as u64);
            log.u64(*steps as u64);
            for e in events {
                match e {
                    Ev::Load { loc, val, ts, .. } => {
                        log.u64(1);
                        log.u64(*loc as u64);
                        log.u64(*val);
                        log.u64(*ts as u64);
                    }
                    Ev::Store { loc, val } => {
                        log.u64(2);
                        log.u64(*loc as u64);
                        log.u64(*val);
                    }
                    Ev::Lock { ok, blocking } => log.u64(3 + *ok as u64 * 2 + *blocking as u64),
                    Ev::Unlock => log.u64(9),
                }
            }
            total_events += events.len();
            if !events.is_empty() {
                active_threads += 1;
            }
            if *status == Status::Frozen {
                stats.bump("fault.writer_stalled_forever");
                let holds = r.mutex_held_by == Some(i);
                if holds {
                    stats.bump("fault.writer_stalled_holding_lock");
                }
            }
        }
        stats.ops_executed += total_events as u64;
        stats.add("probe.stale_reads_served", r.stale_reads);
        stats.add("probe.thread_handoffs", r.handoffs);
        if r.seq_stores.len() >= 2 {
            stats.bump("probe.two_or_more_updates_committed");
        }
        let mut sig = LogHash::new();
        sig.u64(plan.knob("policy"));
        sig.u64(plan.knob("sc"));
        sig.u64(r.seq_stores.len() as u64);
        sig.u64(r.handoffs.min(24));
        sig.u64(r.stale_reads.min(6));
        for t in &r.threads {
            sig.u64(t.1.len().min(30) as u64);
        }
        stats.state(sig.0);
        log.u64(violations.len() as u64);
        Outcome { violations, log_hash: log.0, nontrivial: active_threads >= 2 && total_events >= 12 }
    }
}


/// Hook-free workload for Miri (`-Zmiri-many-seeds`): plain `std::thread`s on
/// one `AtomicBaseTime`; no simulator hook is registered, so the stand-ins
/// pass straight through to `std`.  Returns the process exit code.
pub fn plain_threads_scenario(seed: u64) -> i32 {
    use std::sync::Arc;
    let mut rng = Rng::new(seed ^ 0x3141);
    let abt = Arc::new(AtomicBaseTime::new());
    let nw = rng.range(1, 2);
    let nr = rng.range(1, 2);
    let mut handles = Vec::new();
    let mut max_base = 0u64;
    let mut next = 1u64;
    for w in 0..nw {
        let a = abt.clone();
        let n = rng.range(1, 3);
        let bases: Vec<u64> = (0..n).map(|_| { next += 1; base_of(next) }).collect();
        max_base = max_base.max(*bases.iter().max().unwrap());
        let use_try = rng.chance(1, 3);
        handles.push(std::thread::spawn(move || {
            for b in bases {
                if use_try && w == 1 {
                    let _ = a.try_update((b, VOUCH.vouch(b)));
                } else {
                    a.update((b, VOUCH.vouch(b)));
                }
            }
            Vec::new()
        }));
    }
    for _ in 0..nr {
        let a = abt.clone();
        let n = rng.range(1, 3);
        handles.push(std::thread::spawn(move || {
            let mut seen = Vec::new();
            for _ in 0..n {
                // snapshot() asserts internally that the pair is not torn.
                let (b, v) = a.snapshot();
                assert!(VOUCH.checking_parameters().check(b, v), "torn pair");
                seen.push(b);
            }
            seen
        }));
    }
    let mut bad = 0;
    for h in handles {
        match h.join() {
            Ok(seen) => {
                if seen.windows(2).any(|w| w[1] < w[0]) {
                    println!("FOUND C13 C13.went_backwards (plain threads, seed {}): {:?}", seed, seen);
                    bad += 1;
                }
                if seen.iter().any(|b| *b != 0 && (*b < base_of(2) || (*b - 1_000) % 10 != 0)) {
                    println!("FOUND C13 C13.unknown_pair (plain threads, seed {}): {:?}", seed, seen);
                    bad += 1;
                }
            }
            Err(_) => {
                println!("FOUND C13 C13.panic (plain threads, seed {})", seed);
                bad += 1;
            }
        }
    }
    // Everything has been joined: a snapshot now must see the newest update
    // that was accepted (updates that all use blocking update() with
    // increasing bases per writer: at least each writer's last one is not older
    // than the final value).
    let (b, _) = abt.snapshot();
    if b == 0 {
        println!("FOUND C13 C13.stale_snapshot (plain threads, seed {}): final snapshot still at the epoch", seed);
        bad += 1;
    }
    let _ = max_base;
    println!("DONE plain-threads seed={} final={}", seed, b);
    if bad > 0 { 1 } else { 0 }
}

// ---------------------------------------------------------------------------
// World `nfsthreads`: the nfs_voucher module functions (which funnel into one
// static AtomicBaseTime) called from several simulated threads, with the V
// world's simulated clock and file server.  One OS process per history.
// Serves C18 (get_base_time_unlocked and observe_file_time never wait for a
// writer stalled inside a blocking scan) and C19 (the base time never
// decreases when observers and scanners overlap).
// ---------------------------------------------------------------------------

pub struct NfsThreadsWorld;

fn judge_nfs(plan: &Plan, r: &RunResult, stats: &mut Stats, log: &mut LogHash) -> Vec<Violation> {
    let mut vs = Vec::new();
    let sc = plan.knob("sc") != 0;
    for n in &r.notes {
        match n {
            Note::Panic { tid, msg } => {
                push_v(&mut vs, "C19", "C19.panic", format!("thread {} panicked in an nfs_voucher call: {}", tid, msg));
                if r.threads[*tid].3 {
                    push_v(&mut vs, "C18", "C18.panic", format!("solo thread {} panicked: {}", tid, msg));
                }
            }
            Note::Overrun { tid } => {
                push_v(&mut vs, "C18", "C18.unbounded_steps", format!("thread {} took more than {} steps without finishing its calls", tid, STEP_CAP));
            }
            _ => {}
        }
    }
    for b in &r.blocked {
        if r.threads[*b].3 {
            push_v(&mut vs, "C18", "C18.blocked", format!("thread {} run alone after a scanner stalled could not finish: it waits for the writer lock", b));
        }
    }
    // Committed updates in sequence order: (sequence value, base stored just before).
    let mut commits: Vec<(u64, u64)> = Vec::new();
    for t in &r.threads {
        let evs = &t.1;
        for (j, e) in evs.iter().enumerate() {
            if let Ev::Store { loc, val } = e {
                if *loc == SEQ_LOC && j >= 2 {
                    // The two stores before the commit are the pair; which of them is the
                    // base time is decided by the voucher relation, not by their order.
                    if let (Ev::Store { val: a, .. }, Ev::Store { val: b, .. }) = (&evs[j - 2], &evs[j - 1]) {
                        let bits = |x: u64| -> u64 { unsafe { std::mem::transmute::<raffle::Voucher, u64>(VOUCH.vouch(x)) } };
                        if bits(*a) == *b {
                            commits.push((*val, *a));
                        } else if bits(*b) == *a {
                            commits.push((*val, *b));
                        }
                    }
                }
            }
        }
    }
    commits.sort();
    for w in commits.windows(2) {
        if w[1].1 < w[0].1 {
            push_v(&mut vs, "C19", "C19.concurrent_decrease", format!("update #{} stored base {} over base {} of update #{}", w[1].0, w[1].1, w[0].1, w[0].0));
        }
    }
    if commits.len() >= 2 {
        stats.bump("probe.two_or_more_updates_committed");
    }
    // Per call checks.
    let mut open: BTreeMap<usize, (u64, usize)> = BTreeMap::new();
    let mut last_seen: BTreeMap<usize, u64> = BTreeMap::new();
    for n in &r.notes {
        match n {
            Note::CallStart { tid, kind, ev, .. } => {
                open.insert(*tid, (*kind, *ev));
            }
            Note::CallEnd { tid, kind, base, voucher_ok, ev, .. } => {
                let Some((_, ev0)) = open.remove(tid) else { continue };
                let evs = &r.threads[*tid].1[ev0..*ev];
                let loads = evs.iter().filter(|e| matches!(e, Ev::Load { .. })).count();
                let locks = evs.iter().filter(|e| matches!(e, Ev::Lock { .. } | Ev::Unlock)).count();
                let blocking = evs.iter().any(|e| matches!(e, Ev::Lock { blocking: true, .. }));
                log.u64(*kind);
                log.u64(*base);
                if !voucher_ok {
                    push_v(&mut vs, "C19", "C19.bad_voucher", format!("call kind {} returned base {} with a voucher for another value", kind, base));
                }
                match kind {
                    5 => {
                        if locks > 0 {
                            push_v(&mut vs, "C18", "C18.reader_locks", format!("get_base_time_unlocked performed {} lock operation(s)", locks));
                        }
                        if r.threads[*tid].3 && sc && loads > SOLO_SNAPSHOT_MAX_LOADS {
                            push_v(&mut vs, "C18", "C18.solo_steps", format!("get_base_time_unlocked run alone took {} atomic loads; one pass takes 4, a needless second pass 7", loads));
                        }
                        let prev = last_seen.get(tid).copied().unwrap_or(0);
                        if *base < prev {
                            push_v(&mut vs, "C19", "C19.went_backwards", format!("thread {} read base {} after having read {}", tid, base, prev));
                        }
                        last_seen.insert(*tid, prev.max(*base));
                        if r.threads[*tid].3 {
                            stats.bump("probe.solo_unlocked_read_checked");
                        }
                    }
                    3 => {
                        if blocking {
                            push_v(&mut vs, "C18", "C18.observe_blocks", "observe_file_time used a blocking lock operation".into());
                        }
                        if r.threads[*tid].3 {
                            stats.bump("probe.solo_observe_checked");
                        }
                    }
                    _ => {}
                }
            }
            _ => {}
        }
    }
    vs
}

impl World for NfsThreadsWorld {
    fn name(&self) -> &'static str {
        "nfsthreads"
    }
    fn kinds(&self) -> &'static [&'static str] {
        KINDS
    }
    fn serves(&self) -> &'static [&'static str] {
        &["C18", "C19"]
    }
    fn runs(&self, ask: Ask) -> u64 {
        if ask.thorough {
            300_000
        } else {
            12_000
        }
    }
    fn process_per_run(&self) -> bool {
        true
    }
    fn components(&self) -> (Vec<&'static str>, Vec<&'static str>) {
        (
            vec!["vouched_time::nfs_voucher (observe_file_time, scan_base_time, get_base_time, get_base_time_unlocked, should_refresh_base_time) on real OS threads", "the static AtomicBaseTime they share"],
            vec!["atomics and writer mutex of the static cell (hook H3a, baton scheduler + view memory model)", "wall clock, st_dev and ctime (hooks H3b/H3c)"],
        )
    }
    fn rule(&self) -> &'static str {
        "one run = one fresh OS process: a trusted path is registered, then 2-4 simulated threads call observe_file_time / scan_base_time / get_base_time / get_base_time_unlocked while time passes and files change; in stall plans a scanner is frozen forever at its k-th step (enumerated by run index) and a get_base_time_unlocked thread and an observe_file_time thread then run alone; non-trivial = at least 2 threads took steps and 12 hook events; distinct = distinct (mode, call-kind sequence, stall point)"
    }
    fn generate(&self, seed: u64, index: u64, ask: Ask) -> Plan {
        let mut rng = Rng::new(crate::prng::mix(&[seed, 0x6f5, index]));
        let mut knobs = std::collections::BTreeMap::new();
        let mut ops = Vec::new();
        knobs.insert("sched_seed".into(), rng.next() >> 1);
        let policy = rng.below(5);
        knobs.insert("policy".into(), policy);
        if policy == 1 {
            knobs.insert("pct_d".into(), rng.range(1, 3));
        }
        if ask.prop == "C18" {
            knobs.insert("sc".into(), rng.chance(3, 4) as u64);
            knobs.insert("threads".into(), 3);
            knobs.insert("solo_mask".into(), 0b110);
            // Scanner: time passes (so that a refresh is due), then a blocking scan.
            ops.push(Op::new("call", [0, 7, 2 + rng.below(4), 0]));
            ops.push(Op::new("call", [0, if rng.chance(3, 4) { 4 } else { 6 }, 0, 0]));
            // should_refresh's snapshot: 4 steps; update: 8 steps.
            ops.push(Op::new("freeze", [0, 1 + index % 13, 0, 0]));
            ops.push(Op::new("call", [1, 5, 0, 0]));
            if rng.chance(1, 2) {
                ops.push(Op::new("call", [1, 5, 0, 0]));
            }
            ops.push(Op::new("call", [2, 7, rng.below(36), 0]));
            ops.push(Op::new("call", [2, 3, rng.below(3), 0]));
            return Plan { world: "nfsthreads", mode: "stall".into(), seed, index, knobs, ops };
        }
        knobs.insert("sc".into(), rng.chance(1, 3) as u64);
        let nthreads = rng.range(2, 4);
        knobs.insert("threads".into(), nthreads);
        for t in 0..nthreads {
            // At most one `now = None` entry point (scan) per thread: a second one
            // within 100 ms of real time would be throttled by the module's
            // Instant-based rate limit, which the simulator does not own.
            let mut scanned = false;
            for _ in 0..rng.range(1, 4) {
                let mut kind = *rng.pick(&[3u64, 3, 4, 5, 5, 6, 7, 7]);
                if kind == 4 {
                    if scanned {
                        kind = 6;
                    }
                    scanned = true;
                }
                ops.push(Op::new("call", [t, kind, rng.below(36), 0]));
            }
        }
        Plan { world: "nfsthreads", mode: if knobs["sc"] != 0 { "sc".into() } else { "mm".into() }, seed, index, knobs, ops }
    }
    fn execute(&self, plan: &Plan, stats: &mut Stats) -> Outcome {
        let mut log = LogHash::new();
        // Fixture: files 0 and 1 on a device that is trusted, file 2 on another one.
        let fx = crate::w_vtime::nfs_fixture(NFS_FILES_N, &[0, 0, 1], 1_700_000_000_000);
        let trusted = vouched_time::nfs_voucher::add_trusted_path(fx.paths[0].clone());
        {
            let mut g = NFS_FILES.lock().expect("harness: nfs files");
            g.clear();
            for f in &fx.files {
                g.push(f.try_clone().expect("harness: dup"));
            }
        }
        let mut violations = Vec::new();
        if let Err(e) = trusted {
            violations.push(Violation { prop: "C19", inv: "C19.trust_failed".into(), detail: format!("add_trusted_path failed: {}", e), at_op: 0, key: String::new() });
        }
        let r = run_plan(plan);
        print_trace(&r);
        violations.extend(judge_nfs(plan, &r, stats, &mut log));
        let mut total_events = 0usize;
        let mut active = 0;
        for (i, (status, events, steps, _, _)) in r.threads.iter().enumerate() {
            log.u64(*steps as u64);
            for e in events {
                match e {
                    Ev::Load { loc, val, ts, .. } => {
                        log.u64(1 + *loc as u64 * 8);
                        log.u64(*val);
                        log.u64(*ts as u64);
                    }
                    Ev::Store { loc, val } => {
                        log.u64(2 + *loc as u64 * 8);
                        log.u64(*val);
                    }
                    Ev::Lock { ok, blocking } => log.u64(3 + *ok as u64 * 2 + *blocking as u64),
                    Ev::Unlock => log.u64(9),
                }
            }
            total_events += events.len();
            if !events.is_empty() {
                active += 1;
            }
            if *status == Status::Frozen {
                stats.bump("fault.scanner_stalled_forever");
                if r.mutex_held_by == Some(i) {
                    stats.bump("fault.scanner_stalled_holding_lock");
                }
            }
        }
        stats.ops_executed += total_events as u64;
        stats.add("probe.stale_reads_served", r.stale_reads);
        let mut sig = LogHash::new();
        sig.u64(plan.knob("policy"));
        sig.u64(plan.knob("sc"));
        sig.u64(r.seq_stores.len() as u64);
        sig.u64(r.handoffs.min(24));
        for t in &r.threads {
            sig.u64(t.1.len().min(30) as u64);
        }
        stats.state(sig.0);
        let _ = std::fs::remove_dir_all(&fx.dir);
        log.u64(violations.len() as u64);
        Outcome { violations, log_hash: log.0, nontrivial: active >= 2 && total_events >= 12 }
    }
}


// ---------------------------------------------------------------------------
// World `chunkthreads`: several simulated threads, each with its own unrelated
// iovecs, create and release arena chunks while the scheduler interleaves every
// access to the process-wide live-chunk counters (hook H1 counter seam).  Once
// all threads are done the counters must be back at the run's baseline.
// Serves the "counters return to what they were" half of C10 for concurrent
// histories.
// ---------------------------------------------------------------------------

pub struct ChunkThreadsWorld;

impl World for ChunkThreadsWorld {
    fn name(&self) -> &'static str {
        "chunkthreads"
    }
    fn kinds(&self) -> &'static [&'static str] {
        KINDS
    }
    fn serves(&self) -> &'static [&'static str] {
        &["C10"]
    }
    fn runs(&self, ask: Ask) -> u64 {
        if ask.thorough {
            1_000_000
        } else {
            40_000
        }
    }
    fn components(&self) -> (Vec<&'static str>, Vec<&'static str>) {
        (
            vec!["owning_iovec (chunk creation and release from several threads: Chunk::new, Drop for Chunk, the live-chunk counters)"],
            vec!["value storage of NUM_LIVE_CHUNKS / NUM_LIVE_BYTES (hook H1 counter seam: messages held by the simulator)", "the OS scheduler (baton scheduler)"],
        )
    }
    fn rule(&self) -> &'static str {
        "one run = 2-3 simulated threads x 1-3 create/clone/take/flush/drop histories on their own iovecs, interleaved at every counter access under a drawn scheduling policy and memory mode; non-trivial = at least 2 threads touched the counters; distinct = distinct (mode, operation-kind sequence) x policy"
    }
    fn generate(&self, seed: u64, index: u64, _ask: Ask) -> Plan {
        let mut rng = Rng::new(crate::prng::mix(&[seed, 0xc4c4, index]));
        let mut knobs = std::collections::BTreeMap::new();
        knobs.insert("sched_seed".into(), rng.next() >> 1);
        knobs.insert("sc".into(), rng.chance(1, 2) as u64);
        let policy = rng.below(5);
        knobs.insert("policy".into(), policy);
        if policy == 1 {
            knobs.insert("pct_d".into(), rng.range(1, 3));
        }
        let n = rng.range(2, 3);
        knobs.insert("threads".into(), n);
        let mut ops = Vec::new();
        for t in 0..n {
            for _ in 0..rng.range(1, 3) {
                ops.push(Op::new("churn", [t, rng.below(200), rng.below(4), 0]));
            }
        }
        Plan { world: "chunkthreads", mode: if knobs["sc"] != 0 { "sc".into() } else { "mm".into() }, seed, index, knobs, ops }
    }
    fn execute(&self, plan: &Plan, stats: &mut Stats) -> Outcome {
        let mut log = LogHash::new();
        let base = (owning_iovec::ByteArena::num_live_chunks(), owning_iovec::ByteArena::num_live_bytes());
        COUNTERS_ON.store(true, Ordering::Relaxed);
        let r = run_plan(plan);
        COUNTERS_ON.store(false, Ordering::Relaxed);
        print_trace(&r);
        let now = (owning_iovec::ByteArena::num_live_chunks(), owning_iovec::ByteArena::num_live_bytes());
        let mut violations = Vec::new();
        for n in &r.notes {
            if let Note::Panic { tid, msg } = n {
                push_v(&mut violations, "C10", "C10.panic", format!("thread {} panicked while creating or releasing chunks: {}", tid, msg));
            }
        }
        if now != base {
            push_v(&mut violations, "C10", "C10.counters_after_concurrent_drops", format!("after every thread dropped everything: live chunks/bytes {:?}, baseline {:?}", now, base));
        }
        let mut active = 0;
        let mut total = 0usize;
        for (i, t) in r.threads.iter().enumerate() {
            log.u64(i as u64);
            for e in &t.1 {
                match e {
                    Ev::Load { loc, ts, .. } => {
                        log.u64(1 + *loc as u64 * 8);
                        log.u64(*ts as u64);
                    }
                    Ev::Store { loc, .. } => log.u64(2 + *loc as u64 * 8),
                    _ => {}
                }
            }
            total += t.1.len();
            if !t.1.is_empty() {
                active += 1;
            }
        }
        stats.ops_executed += total as u64;
        stats.add("probe.thread_handoffs", r.handoffs);
        stats.add("probe.stale_reads_served", r.stale_reads);
        let mut sig = LogHash::new();
        sig.u64(plan.knob("policy"));
        sig.u64(plan.knob("sc"));
        sig.u64(r.handoffs.min(40));
        for t in &r.threads {
            sig.u64(t.1.len().min(40) as u64);
        }
        stats.state(sig.0);
        log.u64(violations.len() as u64);
        // Leave the process-wide counters consistent for the next run of this worker.
        Outcome { violations, log_hash: log.0, nontrivial: active >= 2 }
    }
}
