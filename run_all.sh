#!/bin/sh
# Runs every registered check at the given tier (default quick); prints one line per check.
tier="${1:-quick}"
cd "$(dirname "$0")" || exit 2
rc=0
for id in $(python3 -c "import json; print(' '.join(c['property_id'] for c in json.load(open('MANIFEST.json'))['checks']))"); do
    start=$(date +%s)
    out=$(./check "$id" "$tier" 2>&1); code=$?
    end=$(date +%s)
    echo "$id exit=$code $((end-start))s $(echo "$out" | tail -1)"
    echo "$out" | grep -E "^(VIOLATION|KNOWN-FINDING|NOTE)" 
    [ $code -ne 0 ] && rc=1
done
exit $rc
